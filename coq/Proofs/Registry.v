(* C16 — lemmas about Model/Registry.v (the repaired behaviour, [quirks_none]). *)
From Coq Require Import List Arith Bool Lia.
Import ListNotations.
From V Require Import Model.Registry.

Notation qn := quirks_none.
Arguments set : simpl never.
Arguments unreg_id : simpl never.
Arguments displace : simpl never.
Arguments register : simpl never.

Lemma ident_eqb_spec : forall a b, reflect (a = b) (ident_eqb a b).
Proof.
  destruct a, b; simpl; try (constructor; congruence);
  destruct (Nat.eqb_spec n n0); constructor; congruence.
Qed.
Lemma target_eqb_spec : forall a b, reflect (a = b) (target_eqb a b).
Proof.
  destruct a, b; simpl; try (constructor; congruence);
  destruct (Nat.eqb_spec n n0); constructor; congruence.
Qed.
Lemma ident_eqb_refl : forall a, ident_eqb a a = true.
Proof. intro a; destruct (ident_eqb_spec a a); congruence. Qed.
Lemma target_eqb_refl : forall a, target_eqb a a = true.
Proof. intro a; destruct (target_eqb_spec a a); congruence. Qed.

(* ---- association lists ---- *)
Lemma lookup_remove_same : forall i l, lookup i (remove i l) = None.
Proof.
  induction l as [|[j e] l IH]; simpl; auto.
  destruct (ident_eqb i j) eqn:E; auto. simpl. rewrite E. auto.
Qed.
Lemma lookup_remove_other : forall i j l, i <> j -> lookup i (remove j l) = lookup i l.
Proof.
  induction l as [|[k e] l IH]; simpl; intros; auto.
  destruct (ident_eqb_spec j k).
  - subst. destruct (ident_eqb_spec i k); [congruence|auto].
  - simpl. destruct (ident_eqb i k); auto.
Qed.
Lemma lookup_set_same : forall i e l, lookup i (set i e l) = Some e.
Proof. intros; unfold set; simpl. rewrite ident_eqb_refl; auto. Qed.
Lemma lookup_set_other : forall i j e l, i <> j -> lookup i (set j e l) = lookup i l.
Proof.
  intros; unfold set; simpl. destruct (ident_eqb_spec i j); [congruence|].
  apply lookup_remove_other; auto.
Qed.
#[local] Opaque set.
Lemma lookup_remove_sub : forall i j l e, lookup i (remove j l) = Some e -> lookup i l = Some e.
Proof.
  intros. destruct (ident_eqb_spec i j).
  - subst. rewrite lookup_remove_same in H. discriminate.
  - rewrite lookup_remove_other in H; auto.
Qed.
Lemma in_keys_lookup : forall i l, In i (map fst l) <-> lookup i l <> None.
Proof.
  induction l as [|[j e] l IH]; simpl.
  - split; [tauto|congruence].
  - destruct (ident_eqb_spec i j).
    + subst. split; [congruence|auto].
    + rewrite IH. split; [intros [H|H]; [congruence|auto] | auto].
Qed.
Lemma holds_true : forall e t, holds e t = true -> e_tgt e = Some t.
Proof.
  unfold holds; intros. destruct (e_tgt e); [|discriminate].
  destruct (target_eqb_spec t0 t); congruence.
Qed.
Lemma holds_refl : forall t w, holds (mk_entry (Some t) w) t = true.
Proof. intros. unfold holds. simpl. apply target_eqb_refl. Qed.
Lemma entry_eta : forall e t, e_tgt e = Some t -> e = mk_entry (Some t) (e_weak e).
Proof. destruct e; simpl; intros; subst; auto. Qed.

(* ---- unregister by id ---- *)
Lemma unreg_id_lookup_sub : forall s i j e,
  lookup j (reg (unreg_id qn s i)) = Some e -> lookup j (reg s) = Some e.
Proof.
  intros s i j e. unfold unreg_id. destruct (ident_eqb i IdDaemon); auto.
  destruct (lookup i (reg s)) eqn:L; auto. simpl.
  destruct (e_tgt e0); [destruct (pid_is s t i)|]; simpl; apply lookup_remove_sub.
Qed.
Lemma unreg_id_lookup_other : forall s i j, j <> i -> lookup j (reg (unreg_id qn s i)) = lookup j (reg s).
Proof.
  intros s i j Hne. unfold unreg_id. destruct (ident_eqb i IdDaemon); auto.
  destruct (lookup i (reg s)) eqn:L; auto. simpl.
  destruct (e_tgt e); [destruct (pid_is s t i)|]; simpl; apply lookup_remove_other; auto.
Qed.
Lemma unreg_id_daemon : forall s i, lookup IdDaemon (reg (unreg_id qn s i)) = lookup IdDaemon (reg s).
Proof.
  intros. destruct (ident_eqb_spec i IdDaemon).
  - subst. reflexivity.
  - apply unreg_id_lookup_other; congruence.
Qed.
Lemma unreg_id_gone : forall s i, i <> IdDaemon -> lookup i (reg (unreg_id qn s i)) = None.
Proof.
  intros s i Hne. unfold unreg_id. destruct (ident_eqb_spec i IdDaemon); [congruence|].
  destruct (lookup i (reg s)) eqn:L; auto. simpl.
  destruct (e_tgt e); [destruct (pid_is s t i)|]; simpl; apply lookup_remove_same.
Qed.
Lemma unreg_id_pid : forall s i, pid (unreg_id qn s i) = pid s.
Proof.
  intros. unfold unreg_id. destruct (ident_eqb i IdDaemon); auto.
  destruct (lookup i (reg s)); auto. simpl.
  destruct (e_tgt e); [destruct (pid_is s t i)|]; auto.
Qed.
Lemma unreg_id_fins : forall s i, fins (unreg_id qn s i) = fins s /\ ngen (unreg_id qn s i) = ngen s.
Proof.
  intros. unfold unreg_id. destruct (ident_eqb i IdDaemon); auto.
  destruct (lookup i (reg s)); auto. simpl.
  destruct (e_tgt e); [destruct (pid_is s t i)|]; auto.
Qed.
(* the _pyroDaemon mark only ever gets cleared, and only for the holder of the removed entry *)
Lemma unreg_id_pd : forall s i t, pd (unreg_id qn s i) t = true -> pd s t = true.
Proof.
  intros s i t. unfold unreg_id. destruct (ident_eqb i IdDaemon); auto.
  destruct (lookup i (reg s)); auto. simpl.
  destruct (e_tgt e); [destruct (pid_is s t0 i)|]; simpl; auto.
  unfold upd. destruct (target_eqb t t0); auto. discriminate.
Qed.
Lemma unreg_id_pd_keep : forall s i t, pd s t = true -> pid s t <> Some i -> pd (unreg_id qn s i) t = true.
Proof.
  intros s i t Hpd Hne. unfold unreg_id. destruct (ident_eqb i IdDaemon); auto.
  destruct (lookup i (reg s)); auto. simpl.
  destruct (e_tgt e); auto. destruct (pid_is s t0 i) eqn:P; simpl; auto.
  unfold upd. destruct (target_eqb_spec t t0); auto. subst.
  unfold pid_is in P. destruct (pid s t0); [|discriminate].
  destruct (ident_eqb_spec i0 i); [subst; congruence|discriminate].
Qed.
Lemma unreg_id_pd_cleared : forall s i t w,
  i <> IdDaemon -> lookup i (reg s) = Some (mk_entry (Some t) w) -> pid s t = Some i ->
  pd (unreg_id qn s i) t = false.
Proof.
  intros s i t w Hne L P. unfold unreg_id. destruct (ident_eqb_spec i IdDaemon); [congruence|].
  rewrite L. simpl. unfold pid_is. rewrite P, ident_eqb_refl. simpl.
  unfold upd. rewrite target_eqb_refl. auto.
Qed.

(* ---- the invariant that holds after every history ---- *)
Record Inv (s : state) : Prop := mk_Inv {
  (* an object that carries the daemon mark remembers an id under which it is registered *)
  inv_marks : forall t, pd s t = true ->
     exists i w, pid s t = Some i /\ lookup i (reg s) = Some (mk_entry (Some t) w);
  inv_fresh : forall n e, lookup (IdGen n) (reg s) = Some e -> n < ngen s;
  inv_daemon : lookup IdDaemon (reg s) <> None }.

Lemma Inv_init : Inv init.
Proof.
  constructor; simpl; intros; try discriminate.
Qed.

Lemma Inv_unreg_id : forall s i, Inv s -> Inv (unreg_id qn s i).
Proof.
  intros s i [M F D]. constructor.
  - intros t Hpd. pose proof (unreg_id_pd _ _ _ Hpd) as Hpd0.
    destruct (M t Hpd0) as (j & w & P & L). exists j, w. rewrite unreg_id_pid. split; auto.
    destruct (ident_eqb_spec j i).
    + subst j. destruct (ident_eqb_spec i IdDaemon).
      * subst. unfold unreg_id. simpl. auto.
      * rewrite (unreg_id_pd_cleared s i t w) in Hpd; auto. discriminate.
    + rewrite unreg_id_lookup_other; auto.
  - intros n e L. apply unreg_id_lookup_sub in L. destruct (unreg_id_fins s i) as [_ ->]. eauto.
  - rewrite unreg_id_daemon. auto.
Qed.

Lemma displace_same : forall s t i,
  reg (displace qn s t i) = reg s /\ fins (displace qn s t i) = fins s /\ ngen (displace qn s t i) = ngen s.
Proof.
  intros. unfold displace. simpl. destruct (lookup i (reg s)); auto.
  destruct (e_tgt e); auto. destruct (negb (target_eqb t0 t) && pid_is s t0 i); auto.
Qed.
Lemma displace_marks : forall s t i t',
  (pd (displace qn s t i) t' = pd s t' /\ pid (displace qn s t i) t' = pid s t') \/
  (pd (displace qn s t i) t' = false /\ t' <> t /\ pid s t' = Some i).
Proof.
  intros. unfold displace. simpl. destruct (lookup i (reg s)); auto.
  destruct (e_tgt e); auto.
  destruct (target_eqb_spec t0 t); simpl; auto.
  destruct (pid_is s t0 i) eqn:P; auto. simpl. unfold upd.
  destruct (target_eqb_spec t' t0); auto. subst. right. split; auto. split; auto.
  unfold pid_is in P. destruct (pid s t0); [|discriminate].
  destruct (ident_eqb_spec i0 i); [congruence|discriminate].
Qed.
Lemma displace_clears : forall s t i t' w,
  lookup i (reg s) = Some (mk_entry (Some t') w) -> t' <> t -> pid s t' = Some i ->
  pd (displace qn s t i) t' = false.
Proof.
  intros. unfold displace. simpl. rewrite H. simpl.
  destruct (target_eqb_spec t' t); [congruence|]. unfold pid_is. rewrite H1, ident_eqb_refl. simpl.
  unfold upd. rewrite target_eqb_refl. auto.
Qed.

Lemma mem_lookup : forall i l, mem i l = false -> lookup i l = None.
Proof. unfold mem; intros. destruct (lookup i l); [discriminate|auto]. Qed.

(* the state after a registration that went through *)
Definition commit (s : state) (t : target) (r : rid) (f w : bool) : state :=
  let i := req_ident (ngen s) r in
  let s1 := if f then displace qn s t i else s in
  mk_state (set i (mk_entry (Some t) w) (reg s1)) (upd (pid s1) t (Some i)) (upd (pd s1) t true)
           (match t with PObj o => if w then (o, i) :: fins s1 else fins s1 | PCls _ => fins s1 end)
           (match r with RGen => S (ngen s1) | _ => ngen s1 end).

Lemma register_cases : forall s t r f w,
  (exists e, register qn s t r f w = (s, RErr e)) \/
  (r <> RBad /\ (f = false -> mem (req_ident (ngen s) r) (reg s) = false /\ dup_object qn s t = false) /\
   register qn s t r f w = (commit s t r f w, RUri (req_ident (ngen s) r))).
Proof.
  intros. unfold register, commit.
  destruct r; try (left; eexists; reflexivity);
  (destruct (is_class t && w); [left; eexists; reflexivity|];
   destruct f; simpl;
   [ right; split; [discriminate|]; split; [discriminate|reflexivity]
   | destruct (dup_object qn s t); [left; eexists; reflexivity|];
     match goal with |- context [mem ?i (reg s)] => destruct (mem i (reg s)) eqn:Hm end;
     [left; eexists; reflexivity | right; split; [discriminate|]; split; [auto|reflexivity]] ]).
Qed.

Lemma commit_s1 : forall (s : state) (t : target) (i : ident) (f : bool),
  let s1 := if f then displace qn s t i else s in
  reg s1 = reg s /\ fins s1 = fins s /\ ngen s1 = ngen s /\
  (forall t', (pd s1 t' = pd s t' /\ pid s1 t' = pid s t') \/ (f = true /\ pd s1 t' = false /\ t' <> t /\ pid s t' = Some i)).
Proof.
  intros. subst s1. destruct f; [|repeat split; auto].
  destruct (displace_same s t i) as (A & B & C). repeat split; auto.
  intro t'. destruct (displace_marks s t i t') as [H|H]; [left; auto | right; split; auto].
Qed.

Lemma Inv_commit : forall s t r f w, Inv s -> r <> RBad ->
  (f = false -> mem (req_ident (ngen s) r) (reg s) = false) -> Inv (commit s t r f w).
Proof.
  intros s t r f w [M F D] Hbad Hfree. unfold commit.
  set (i := req_ident (ngen s) r). fold i in Hfree.
  destruct (commit_s1 s t i f) as (R1 & _ & N1 & Hm).
  set (s1 := if f then displace qn s t i else s) in *.
  constructor; simpl.
  - intros t' Hpd. unfold upd in *. destruct (target_eqb_spec t' t).
    + subst t'. exists i, w. split; auto. rewrite R1. apply lookup_set_same.
    + destruct (Hm t') as [[A B]|(Ef & A & _ & _)]; [|congruence].
      rewrite A in Hpd. destruct (M t' Hpd) as (j & w' & P & L).
      exists j, w'. rewrite B. split; auto. rewrite R1.
      destruct (ident_eqb_spec j i).
      * exfalso. subst j. destruct f.
        -- assert (pd s1 t' = false) by (subst s1; eapply displace_clears; eauto). congruence.
        -- specialize (Hfree eq_refl). unfold mem in Hfree. rewrite L in Hfree. discriminate.
      * rewrite lookup_set_other; auto.
  - intros n e L. rewrite R1 in L. rewrite N1.
    destruct (ident_eqb_spec (IdGen n) i) as [E|E].
    + subst i. destruct r; simpl in E; try discriminate; try congruence. injection E as ->. lia.
    + rewrite lookup_set_other in L; auto. apply F in L. destruct r; lia.
  - rewrite R1. destruct (ident_eqb_spec IdDaemon i) as [E|E].
    + rewrite <- E, lookup_set_same. discriminate.
    + rewrite lookup_set_other; auto.
Qed.

Lemma Inv_register : forall s t r f w, Inv s -> Inv (fst (register qn s t r f w)).
Proof.
  intros s t r f w HI. destruct (register_cases s t r f w) as [[e ->]|(Hb & Hf & ->)]; simpl; auto.
  apply Inv_commit; auto. intro. apply Hf; auto.
Qed.

Lemma Inv_unreg_obj : forall s t, Inv s -> Inv (fst (unreg_obj qn s t)).
Proof.
  intros s t HI. unfold unreg_obj. destruct (pid s t) as [i|] eqn:P; [|exact HI].
  simpl. destruct (lookup i (reg s)) as [e|] eqn:L.
  2: { simpl. destruct (ident_eqb i IdDaemon); exact HI. }
  destruct (holds e t) eqn:H; simpl; [|exact HI].
  destruct (ident_eqb_spec i IdDaemon); [exact HI|].
  assert (Inv (mk_state (remove i (reg s)) (upd (pid s) t None) (upd (pd s) t false) (fins s) (ngen s))).
  { destruct HI as [M F D]. constructor; simpl.
    - intros t' Hpd. unfold upd in *. destruct (target_eqb_spec t' t); [discriminate|].
      destruct (M t' Hpd) as (j & w & Pj & Lj). exists j, w. split; auto.
      destruct (ident_eqb_spec j i).
      + exfalso. subst j. rewrite L in Lj. injection Lj as Ee. rewrite Ee in H. unfold holds in H. simpl in H.
        destruct (target_eqb_spec t' t) as [Et|Et]; [congruence|discriminate H].
      + rewrite lookup_remove_other; auto.
    - intros k e' L'. apply lookup_remove_sub in L'. eauto.
    - rewrite lookup_remove_other; auto. }
  destruct (pd s t); exact H0.
Qed.

Lemma run_finalizer_cases : forall o s i,
  run_finalizer qn o s i = s \/
  (run_finalizer qn o s i = unreg_id qn s i /\ exists e, lookup i (reg s) = Some e /\ holds e (PObj o) = true /\ e_weak e = true).
Proof.
  intros. unfold run_finalizer. simpl. destruct (lookup i (reg s)) eqn:L; auto.
  destruct (holds e (PObj o)) eqn:H; auto. destruct (e_weak e) eqn:W; auto.
  right. split; auto. exists e. auto.
Qed.

Lemma Inv_fold_fin : forall o l s, Inv s -> Inv (fold_left (run_finalizer qn o) l s).
Proof.
  induction l; simpl; intros; auto. apply IHl.
  destruct (run_finalizer_cases o s a) as [->|[-> _]]; auto. apply Inv_unreg_id; auto.
Qed.

(* what the finalizers of a dead object can do to the rest of the state *)
Lemma fold_fin_props : forall o l s,
  let s' := fold_left (run_finalizer qn o) l s in
  (forall j e, lookup j (reg s') = Some e -> lookup j (reg s) = Some e) /\
  (forall j e, lookup j (reg s) = Some e -> holds e (PObj o) && e_weak e = false -> lookup j (reg s') = Some e) /\
  pid s' = pid s /\ fins s' = fins s /\ ngen s' = ngen s /\
  (forall t, pd s' t = true -> pd s t = true) /\
  (forall t, t <> PObj o -> pd s' t = pd s t).
Proof.
  induction l; intros s; simpl.
  - repeat split; auto.
  - destruct (IHl (run_finalizer qn o s a)) as (A & B & C & D & E & G & K). clear IHl.
    destruct (run_finalizer_cases o s a) as [R|[R (e0 & L0 & H0 & W0)]]; rewrite R in *.
    + repeat split; auto.
    + destruct (unreg_id_fins s a) as [Fa Na].
      repeat split.
      * intros j e L. apply A in L. eapply unreg_id_lookup_sub; eauto.
      * intros j e L Hn. apply B; auto. destruct (ident_eqb_spec j a).
        -- subst. rewrite L0 in L. injection L as ->. rewrite H0, W0 in Hn. discriminate.
        -- rewrite unreg_id_lookup_other; auto.
      * rewrite C. apply unreg_id_pid.
      * congruence.
      * congruence.
      * intros t Hp. apply G in Hp. eapply unreg_id_pd; eauto.
      * intros t Hne. rewrite K; auto.
        unfold unreg_id. destruct (ident_eqb a IdDaemon); auto. rewrite L0. simpl.
        rewrite (holds_true _ _ H0). destruct (pid_is s (PObj o) a); auto. simpl.
        unfold upd. destruct (target_eqb_spec t (PObj o)); [congruence|auto].
Qed.

Lemma Inv_gc : forall s o, Inv s -> Inv (fst (gc qn s o)).
Proof.
  intros s o HI. unfold gc. destruct (strongly_held s o); [exact HI|]. simpl.
  set (mine := map snd (filter (fun p => Nat.eqb (fst p) o) (fins s))).
  pose proof (Inv_fold_fin o mine s HI) as [M F D].
  constructor; simpl; auto.
  intros t Hpd. unfold upd in *. destruct (target_eqb_spec t (PObj o)); [discriminate|]. auto.
Qed.

Lemma Inv_step : forall s e, Inv s -> Inv (fst (step qn s e)).
Proof.
  intros s e HI. destruct e; simpl; auto.
  - apply Inv_register; auto.
  - apply Inv_unreg_obj; auto.
  - apply Inv_unreg_id; auto.
  - apply Inv_gc; auto.
Qed.

Lemma run_fst_app : forall q h1 h2 s, fst (run q s (h1 ++ h2)) = fst (run q (fst (run q s h1)) h2).
Proof.
  induction h1; simpl; intros; auto.
  destruct (step q s a) as [s1 r] eqn:E. specialize (IHh1 h2 s1).
  destruct (run q s1 (h1 ++ h2)) eqn:E1. destruct (run q s1 h1) eqn:E2. simpl in *. auto.
Qed.
Lemma run_fst_cons : forall q e h s, fst (run q s (e :: h)) = fst (run q (fst (step q s e)) h).
Proof. intros. simpl. destruct (step q s e) as [s1 r]. simpl. destruct (run q s1 h). reflexivity. Qed.

Lemma Inv_run : forall h s, Inv s -> Inv (fst (run qn s h)).
Proof.
  induction h; intros; [simpl; auto|]. rewrite run_fst_cons. apply IHh. apply Inv_step; auto.
Qed.
Lemma Inv_final : forall h, Inv (final qn h).
Proof. intros. apply Inv_run. apply Inv_init. Qed.

(* ---- returned objects ---- *)
Lemma proxy_reaches_same_object : forall h o i x,
  snd (step qn (final qn h) (Return o)) = RProxy i x ->
  x = Some (PObj o) /\ registered_at (final qn h) i (PObj o).
Proof.
  intros h o i x. pose proof (Inv_final h) as [M _ _]. simpl. unfold do_return.
  destruct (pd (final qn h) (PObj o)) eqn:Hpd; [|discriminate].
  destruct (M _ Hpd) as (j & w & P & L). rewrite P, L, holds_refl. simpl. intro E. injection E as <- <-.
  split; auto. exists w. auto.
Qed.

Lemma unregistered_travels_by_value : forall h o,
  ~ is_registered (final qn h) (PObj o) -> snd (step qn (final qn h) (Return o)) = RValue.
Proof.
  intros h o Hn. pose proof (Inv_final h) as [M _ _]. simpl. unfold do_return.
  destruct (pd (final qn h) (PObj o)) eqn:Hpd; auto.
  destruct (M _ Hpd) as (j & w & P & L). exfalso. apply Hn. exists j, w. auto.
Qed.

Lemma return_never_fails : forall h o e, snd (step qn (final qn h) (Return o)) <> RErr e.
Proof.
  intros h o e. pose proof (Inv_final h) as [M _ _]. simpl. unfold do_return.
  destruct (pd (final qn h) (PObj o)) eqn:Hpd; [|discriminate].
  destruct (M _ Hpd) as (j & w & P & L). rewrite P, L, holds_refl. discriminate.
Qed.

(* ---- "for as long as registered": a registration, together with the object's marks, survives
        every event that is not aimed at that id or that object ---- *)
Definition settled (s : state) (i : ident) (t : target) : Prop :=
  registered_at s i t /\ pid s t = Some i /\ pd s t = true.

Definition disturbs (i : ident) (t : target) (e : event) : bool :=
  touches i t e || match e with Register t' _ _ _ => target_eqb t t' | _ => false end.

Lemma settled_step : forall s i t e, Inv s -> settled s i t -> disturbs i t e = false ->
  settled (fst (step qn s e)) i t.
Proof.
  intros s i t e HI [[w L] [P D]] Hd. unfold disturbs in Hd. apply orb_false_iff in Hd as [Ht Hr].
  destruct e; simpl in *; try solve [split; [exists w; auto | auto]].
  - (* Register *)
    destruct (target_eqb_spec t t0) as [|Hne]; [discriminate|].
    destruct (register_cases s t0 r force weak) as [[e ->]|(Hrb & Hf & ->)]; simpl;
      [split; [exists w; auto | auto]|].
    unfold commit. set (i' := req_ident (ngen s) r) in *.
    assert (Hii : i <> i').
    { intro; subst i'. destruct force.
      - destruct r; simpl in *; try congruence.
        + destruct HI as [_ F _]. subst i. apply F in L. lia.
        + subst i. discriminate.
        + subst i. simpl in Ht. rewrite Nat.eqb_refl in Ht. discriminate.
      - destruct (Hf eq_refl) as [Hm _]. unfold mem in Hm. subst i. rewrite L in Hm. discriminate. }
    destruct (commit_s1 s t0 i' force) as (R1 & _ & _ & Hm).
    unfold settled, registered_at; simpl; unfold upd.
    destruct (target_eqb_spec t t0); [congruence|].
    rewrite R1, lookup_set_other by auto.
    destruct (Hm t) as [[A B]|(_ & _ & _ & C)]; [|congruence].
    rewrite A, B. split; [exists w; auto | auto].
  - (* UnregObj *)
    destruct (target_eqb_spec t t0) as [|Hne]; [discriminate|].
    unfold unreg_obj. destruct (pid s t0) as [j|] eqn:Pj; [|split; [exists w; auto|auto]].
    simpl. destruct (lookup j (reg s)) as [e|] eqn:Lj.
    2: { simpl. destruct (ident_eqb j IdDaemon); split; try (exists w); auto. }
    destruct (holds e t0) eqn:H; simpl; [|split; [exists w; auto|auto]].
    destruct (ident_eqb j IdDaemon); [split; [exists w; auto|auto]|].
    assert (i <> j).
    { intro; subst j. rewrite L in Lj. injection Lj as Ee. rewrite <- Ee in H. unfold holds in H. simpl in H.
      destruct (target_eqb_spec t t0) as [Et|Et]; [congruence|discriminate H]. }
    assert (settled (mk_state (remove j (reg s)) (upd (pid s) t0 None) (upd (pd s) t0 false) (fins s) (ngen s)) i t).
    { unfold settled, registered_at; simpl; unfold upd.
      destruct (target_eqb_spec t t0); [congruence|]. rewrite lookup_remove_other; auto.
      split; [exists w; auto|auto]. }
    destruct (pd s t0); auto.
  - (* UnregId *)
    destruct (ident_eqb_spec i i0); [discriminate|].
    unfold settled, registered_at. rewrite unreg_id_lookup_other, unreg_id_pid; auto.
    split; [exists w; auto|]. split; auto. apply unreg_id_pd_keep; auto. congruence.
  - (* Gc *)
    destruct (target_eqb_spec t (PObj o)) as [|Hne]; [discriminate|].
    unfold gc. destruct (strongly_held s o); [split; [exists w; auto|auto]|]. simpl.
    set (mine := map snd (filter (fun p => Nat.eqb (fst p) o) (fins s))).
    destruct (fold_fin_props o mine s) as (_ & B & C & _ & _ & _ & K).
    unfold settled, registered_at; simpl; unfold upd.
    destruct (target_eqb_spec t (PObj o)); [congruence|].
    rewrite C, K by auto. split; [|auto]. exists w. apply B; auto.
    unfold holds; simpl. destruct (target_eqb_spec t (PObj o)); [congruence|auto].
Qed.

Lemma settled_run : forall h s i t, Inv s -> settled s i t -> forallb (fun e => negb (disturbs i t e)) h = true ->
  settled (fst (run qn s h)) i t.
Proof.
  induction h; intros; [simpl; auto|]. simpl in H1.
  apply andb_true_iff in H1 as [A B]. apply negb_true_iff in A.
  rewrite run_fst_cons.
  apply IHh; auto. apply Inv_step; auto. apply settled_step; auto.
Qed.

Lemma register_settles : forall s t r f w i, snd (register qn s t r f w) = RUri i ->
  settled (fst (register qn s t r f w)) i t.
Proof.
  intros s t r f w i. destruct (register_cases s t r f w) as [[e ->]|(_ & _ & ->)]; simpl; [discriminate|].
  intro E; injection E as <-.
  unfold settled, registered_at, commit; simpl; unfold upd. rewrite target_eqb_refl, lookup_set_same.
  split; [exists w; auto|auto].
Qed.

Lemma registered_until_disturbed : forall h1 t r f w i h2 o,
  snd (step qn (final qn h1) (Register t r f w)) = RUri i ->
  forallb (fun e => negb (disturbs i t e)) h2 = true ->
  let s := final qn (h1 ++ Register t r f w :: h2) in
  snd (step qn s (Call i)) = RReached (Some t) /\
  (t = PObj o -> snd (step qn s (Return o)) = RProxy i (Some (PObj o))).
Proof.
  intros h1 t r f w i h2 o Hreg Hh2 s.
  assert (settled s i t) as [[w' L] [P D]].
  { subst s. unfold final. rewrite run_fst_app, run_fst_cons. apply settled_run; auto.
    - apply Inv_step. apply Inv_final.
    - simpl in *. apply register_settles; auto. }
  simpl. rewrite L. split; auto. intros ->. unfold do_return. rewrite D, P, L, holds_refl. auto.
Qed.

(* ---- ids become known only by registration ---- *)
Lemma known_only_by_registration : forall s e i en,
  lookup i (reg (fst (step qn s e))) = Some en ->
  lookup i (reg s) = Some en \/ exists t r f w, e = Register t r f w /\ snd (step qn s e) = RUri i.
Proof.
  intros s e i en. destruct e; simpl; auto.
  - destruct (register_cases s t r force weak) as [[e ->]|(_ & _ & ->)]; simpl; auto.
    unfold commit; simpl. set (i' := req_ident (ngen s) r).
    destruct (commit_s1 s t i' force) as (R1 & _). rewrite R1. intro L.
    destruct (ident_eqb_spec i i'); [subst; right; repeat eexists | rewrite lookup_set_other in L; auto].
  - unfold unreg_obj. destruct (pid s t); auto. simpl.
    destruct (lookup i0 (reg s)) eqn:L0.
    + destruct (holds e t); simpl; auto. destruct (ident_eqb i0 IdDaemon); auto.
      destruct (pd s t); simpl; intro L; left; eapply lookup_remove_sub; eauto.
    + simpl. destruct (ident_eqb i0 IdDaemon); auto.
  - intro L. left. eapply unreg_id_lookup_sub; eauto.
  - unfold gc. destruct (strongly_held s o); auto. simpl.
    set (mine := map snd (filter (fun p => Nat.eqb (fst p) o) (fins s))).
    destruct (fold_fin_props o mine s) as (A & _). intro L. left. apply A; auto.
Qed.

(* ---- a second registration of the same id is refused unless forced ---- *)
Lemma duplicate_id_refused : forall s t r w,
  (r = RDaemon \/ exists n, r = RNamed n) -> mem (req_ident 0 r) (reg s) = true ->
  exists e, step qn s (Register t r false w) = (s, RErr e).
Proof.
  intros s t r w Hr Hm. simpl. unfold register.
  destruct Hr as [->|[n ->]]; simpl in *.
  all: destruct (is_class t && w); [eexists; reflexivity|].
  all: destruct (dup_object qn s t); [eexists; reflexivity|].
  all: rewrite Hm; eexists; reflexivity.
Qed.

Lemma unforced_registration_adds_only : forall s t r w i,
  snd (step qn s (Register t r false w)) = RUri i ->
  lookup i (reg s) = None /\
  forall j, j <> i -> lookup j (reg (fst (step qn s (Register t r false w)))) = lookup j (reg s).
Proof.
  intros s t r w i. simpl.
  destruct (register_cases s t r false w) as [[e ->]|(_ & Hf & ->)]; simpl; [discriminate|].
  intro E; injection E as <-. destruct (Hf eq_refl) as [Hm _].
  split; [apply mem_lookup; auto | intros; unfold commit; simpl; apply lookup_set_other; auto].
Qed.

(* ---- the daemon's own id ---- *)
Lemma daemon_entry_changes_only_by_force : forall s e,
  lookup IdDaemon (reg s) <> None ->
  lookup IdDaemon (reg (fst (step qn s e))) <> lookup IdDaemon (reg s) ->
  exists t w, e = Register t RDaemon true w.
Proof.
  intros s e HD. destruct e; simpl; try congruence.
  - destruct (register_cases s t r force weak) as [[e ->]|(_ & Hf & ->)]; simpl; [congruence|].
    unfold commit; simpl. set (i' := req_ident (ngen s) r) in *.
    destruct (commit_s1 s t i' force) as (R1 & _). rewrite R1.
    destruct (ident_eqb_spec IdDaemon i') as [E|E].
    + destruct force.
      * destruct r; simpl in E; try discriminate. eauto.
      * destruct (Hf eq_refl) as [Hm _]. rewrite <- E in Hm. apply mem_lookup in Hm. congruence.
    + rewrite lookup_set_other; auto. congruence.
  - unfold unreg_obj. destruct (pid s t); simpl; try congruence.
    destruct (lookup i (reg s)) eqn:L0.
    + destruct (holds e t); simpl; try congruence. destruct (ident_eqb_spec i IdDaemon); simpl; try congruence.
      destruct (pd s t); simpl; rewrite lookup_remove_other; congruence.
    + simpl. destruct (ident_eqb i IdDaemon); simpl; congruence.
  - rewrite unreg_id_daemon. congruence.
  - unfold gc. destruct (strongly_held s o); simpl; try congruence.
    intro H. exfalso. apply H. clear H.
    assert (G : forall l s0, lookup IdDaemon (reg (fold_left (run_finalizer qn o) l s0)) = lookup IdDaemon (reg s0)).
    { induction l; simpl; intros; auto. rewrite IHl.
      destruct (run_finalizer_cases o s0 a) as [->|[-> _]]; auto. apply unreg_id_daemon. }
    apply G.
Qed.

Lemma daemon_always_registered : forall h, lookup IdDaemon (reg (final qn h)) <> None.
Proof. intro h. apply (inv_daemon _ (Inv_final h)). Qed.

Lemma registered_lists_exactly : forall s i,
  exists l, snd (step qn s Registered) = RIds l /\
  (In i l <-> exists x, snd (step qn s (Call i)) = RReached x).
Proof.
  intros. simpl. eexists. split; [reflexivity|]. rewrite in_keys_lookup.
  destruct (lookup i (reg s)); split; intros; eauto; try congruence.
  destruct H; discriminate.
Qed.

Lemma unregister_by_id_forgets : forall s i, i <> IdDaemon ->
  snd (step qn (fst (step qn s (UnregId i))) (Call i)) = RErr EUnknownObject.
Proof. intros. simpl. rewrite unreg_id_gone; auto. Qed.

Lemma unregister_object_forgets : forall s o,
  snd (step qn s (UnregObj (PObj o))) = ROk ->
  snd (step qn (fst (step qn s (UnregObj (PObj o)))) (Return o)) = RValue \/ pid s (PObj o) = Some IdDaemon
  \/ exists i, pid s (PObj o) = Some i /\ lookup i (reg s) = None.
Proof.
  intros s o. simpl. unfold unreg_obj. destruct (pid s (PObj o)) as [i|]; [|discriminate]. simpl.
  destruct (lookup i (reg s)) as [e|] eqn:L.
  - destruct (holds e (PObj o)); simpl; [|discriminate].
    destruct (ident_eqb_spec i IdDaemon); [subst; auto|].
    destruct (pd s (PObj o)); simpl; [|discriminate]. intros _. left.
    unfold do_return; simpl. unfold upd. rewrite target_eqb_refl. auto.
  - eauto.
Qed.

(* ================= garbage collection, second registration of an object, alias-free histories ============ *)

Lemma lookup_In : forall i l e, lookup i l = Some e -> In (i, e) l.
Proof.
  induction l as [|[j e0] l IH]; simpl; intros e H; [discriminate|].
  destruct (ident_eqb_spec i j).
  - injection H as ->. subst. auto.
  - right; auto.
Qed.

Lemma not_strongly_held : forall s o i e,
  strongly_held s o = false -> lookup i (reg s) = Some e -> holds e (PObj o) = true -> e_weak e = true.
Proof.
  unfold strongly_held; intros s o i e SH L H. apply lookup_In in L.
  destruct (e_weak e) eqn:W; auto. exfalso.
  assert (X : existsb (fun ie => holds (snd ie) (PObj o) && negb (e_weak (snd ie))) (reg s) = true).
  { apply existsb_exists. exists (i, e). split; auto. simpl. rewrite H, W. auto. }
  congruence.
Qed.


Lemma unreg_id_daemon_id : forall s, unreg_id qn s IdDaemon = s.
Proof. reflexivity. Qed.

(* every weak registration of a pool object (outside the daemon's reserved id) has a pending finalizer *)
Definition Fin (s : state) : Prop :=
  forall o i, i <> IdDaemon -> lookup i (reg s) = Some (mk_entry (Some (PObj o)) true) -> In (o, i) (fins s).

Lemma run_finalizer_after : forall o s a e, a <> IdDaemon ->
  lookup a (reg (run_finalizer qn o s a)) = Some e -> holds e (PObj o) && e_weak e = false.
Proof.
  intros o s a e Hne. unfold run_finalizer. simpl. destruct (lookup a (reg s)) eqn:L.
  - destruct (holds e0 (PObj o) && e_weak e0) eqn:HW.
    + rewrite unreg_id_gone; auto. discriminate.
    + rewrite L. intro E; injection E as <-. auto.
  - rewrite L. discriminate.
Qed.

Lemma fold_fin_clears : forall o l s j e, In j l -> j <> IdDaemon ->
  lookup j (reg (fold_left (run_finalizer qn o) l s)) = Some e -> holds e (PObj o) && e_weak e = false.
Proof.
  induction l; simpl; intros s j e Hin Hne L; [tauto|].
  destruct (ident_eqb_spec j a).
  - subst. destruct (fold_fin_props o l (run_finalizer qn o s a)) as (A & _). apply A in L.
    eapply run_finalizer_after; eauto.
  - destruct Hin; [congruence|]. eapply IHl; eauto.
Qed.

Lemma in_mine : forall o i (f : list (nat * ident)), In (o, i) f ->
  In i (map snd (filter (fun p => Nat.eqb (fst p) o) f)).
Proof.
  intros. apply in_map_iff. exists (o, i). split; auto. apply filter_In. split; auto.
  simpl. apply Nat.eqb_refl.
Qed.

Lemma gc_cases : forall s o,
  (strongly_held s o = true /\ gc qn s o = (s, RGc false)) \/
  (strongly_held s o = false /\ snd (gc qn s o) = RGc true /\
   pid (fst (gc qn s o)) = upd (pid s) (PObj o) None /\
   pd (fst (gc qn s o)) (PObj o) = false /\
   (forall t, t <> PObj o -> pd (fst (gc qn s o)) t = pd s t) /\
   ngen (fst (gc qn s o)) = ngen s /\
   (forall p, In p (fins (fst (gc qn s o))) <-> In p (fins s) /\ fst p <> o)).
Proof.
  intros. unfold gc. destruct (strongly_held s o); [left; auto|right]. simpl.
  set (mine := map snd (filter (fun p => Nat.eqb (fst p) o) (fins s))).
  destruct (fold_fin_props o mine s) as (_ & _ & C & D & E & _ & K).
  split; auto. split; auto. split; [rewrite C; auto|].
  split; [unfold upd; rewrite target_eqb_refl; auto|].
  split; [intros t Hne; unfold upd; destruct (target_eqb_spec t (PObj o)); [congruence|apply K; auto]|].
  split; auto.
  intro p. rewrite D, filter_In. destruct (Nat.eqb_spec (fst p) o); simpl; split; intros [? ?]; split; auto; congruence.
Qed.

(* what collecting an object does to the registry *)
Lemma gc_collects : forall s o, Fin s -> snd (gc qn s o) = RGc true ->
  (forall i e, i <> IdDaemon -> lookup i (reg (fst (gc qn s o))) = Some e -> holds e (PObj o) = false) /\
  (forall i e, lookup i (reg s) = Some e -> holds e (PObj o) = false -> lookup i (reg (fst (gc qn s o))) = Some e) /\
  (forall i e, lookup i (reg (fst (gc qn s o))) = Some e -> lookup i (reg s) = Some e).
Proof.
  intros s o HF. unfold gc. destruct (strongly_held s o) eqn:SH; simpl; [discriminate|]. intros _.
  set (mine := map snd (filter (fun p => Nat.eqb (fst p) o) (fins s))).
  destruct (fold_fin_props o mine s) as (A & B & _).
  split; [|split]; auto.
  - intros i e Hne L. destruct (holds e (PObj o)) eqn:H; auto. exfalso.
    pose proof (A _ _ L) as L0.
    pose proof (not_strongly_held _ _ _ _ SH L0 H) as W.
    assert (In i mine).
    { apply in_mine. apply HF; auto. rewrite L0. f_equal.
      rewrite (entry_eta e (PObj o)); [rewrite W; auto | apply holds_true; auto]. }
    pose proof (fold_fin_clears o mine s i e H0 Hne L) as X. rewrite H, W in X. discriminate.
  - intros i e L H. apply B; auto. rewrite H. auto.
Qed.

Lemma Fin_init : Fin init.
Proof.
  intros o i Hne. simpl. destruct (ident_eqb_spec i IdDaemon); [congruence|discriminate].
Qed.

Lemma Fin_commit : forall s t r f w, Fin s -> Fin (commit s t r f w).
Proof.
  intros s t r f w HF o i Hne. unfold commit. simpl.
  set (i' := req_ident (ngen s) r).
  destruct (commit_s1 s t i' f) as (R1 & F1 & _). rewrite R1, F1. intro L.
  destruct (ident_eqb_spec i i').
  - subst i. rewrite lookup_set_same in L. injection L as -> ->. simpl. auto.
  - rewrite lookup_set_other in L; auto. specialize (HF o i Hne L).
    destruct t; [destruct w|]; simpl; auto.
Qed.

Lemma Fin_unreg_id : forall s i, Fin s -> Fin (unreg_id qn s i).
Proof.
  intros s i HF o j Hne L. apply unreg_id_lookup_sub in L.
  destruct (unreg_id_fins s i) as [-> _]. auto.
Qed.

Lemma Fin_unreg_obj : forall s t, Fin s -> Fin (fst (unreg_obj qn s t)).
Proof.
  intros s t HF. unfold unreg_obj. destruct (pid s t) as [i|]; [|exact HF]. simpl.
  destruct (lookup i (reg s)) as [e|].
  2: { simpl. destruct (ident_eqb i IdDaemon); exact HF. }
  destruct (holds e t); simpl; [|exact HF].
  destruct (ident_eqb i IdDaemon); [exact HF|].
  assert (Fin (mk_state (remove i (reg s)) (upd (pid s) t None) (upd (pd s) t false) (fins s) (ngen s))).
  { intros o j Hne L. simpl in *. apply lookup_remove_sub in L. auto. }
  destruct (pd s t); exact H.
Qed.

Lemma Fin_gc : forall s o, Fin s -> Fin (fst (gc qn s o)).
Proof.
  intros s o HF. destruct (gc_cases s o) as [[_ ->]|(SH & R & _ & _ & _ & _ & FI)]; [exact HF|].
  destruct (gc_collects s o HF R) as (G1 & _ & G3).
  intros o' i Hne L. apply FI. split.
  - apply HF; auto.
  - simpl. intro; subst o'. pose proof (G1 i _ Hne L) as X. rewrite holds_refl in X. discriminate.
Qed.

Lemma Fin_step : forall s e, Fin s -> Fin (fst (step qn s e)).
Proof.
  intros s e HF. destruct e; simpl; auto.
  - destruct (register_cases s t r force weak) as [[e ->]|(_ & _ & ->)]; simpl; auto. apply Fin_commit; auto.
  - apply Fin_unreg_obj; auto.
  - apply Fin_unreg_id; auto.
  - apply Fin_gc; auto.
Qed.

Lemma Fin_run : forall h s, Fin s -> Fin (fst (run qn s h)).
Proof.
  induction h; intros; [simpl; auto|]. rewrite run_fst_cons. apply IHh. apply Fin_step; auto.
Qed.
Lemma Fin_final : forall h, Fin (final qn h).
Proof. intros. apply Fin_run. apply Fin_init. Qed.

(* ---- (1) collection of a weakly registered object ---- *)
Lemma gc_forgets_collected_object : forall h o,
  let s := final qn h in
  snd (step qn s (Gc o)) = RGc true ->
  let s' := fst (step qn s (Gc o)) in
  (forall i, i <> IdDaemon -> snd (step qn s' (Call i)) <> RReached (Some (PObj o))) /\
  (forall i e, lookup i (reg s) = Some e -> holds e (PObj o) = false -> lookup i (reg s') = Some e) /\
  (forall i e, lookup i (reg s') = Some e -> lookup i (reg s) = Some e) /\
  snd (step qn s' (Return o)) = RValue.
Proof.
  intros h o s R s'. simpl in R. subst s'. simpl.
  destruct (gc_collects s o (Fin_final h) R) as (G1 & G2 & G3).
  split; [|split; [|split]]; auto.
  - intros i Hne. destruct (lookup i (reg (fst (gc qn s o)))) eqn:L; [|discriminate].
    intro E. injection E as E. pose proof (G1 i e Hne L) as H.
    rewrite (entry_eta e (PObj o) E), holds_refl in H. discriminate.
  - destruct (gc_cases s o) as [[_ E]|(_ & _ & _ & PD & _)]; [rewrite E in R; discriminate|].
    unfold do_return. rewrite PD. auto.
Qed.

Lemma gc_keeps_strongly_registered : forall s o, strongly_held s o = true -> step qn s (Gc o) = (s, RGc false).
Proof. intros. simpl. unfold gc. rewrite H. auto. Qed.

(* ---- (3) an object that is never aliased owns its single registration ---- *)
Definition Own (t : target) (s : state) : Prop :=
  (forall i w, lookup i (reg s) = Some (mk_entry (Some t) w) -> pid s t = Some i /\ pd s t = true) /\
  (forall e, lookup IdDaemon (reg s) = Some e -> holds e t = true -> e_weak e = false).

Lemma Own_init : forall t, Own t init.
Proof.
  intro t. split; simpl.
  - intros i w. destruct (ident_eqb i IdDaemon); discriminate.
  - intros e E. injection E as <-. unfold holds. simpl. discriminate.
Qed.

Lemma existsb_false_In : forall {A} (f : A -> bool) l x, existsb f l = false -> In x l -> f x = false.
Proof.
  intros. destruct (f x) eqn:E; auto. assert (existsb f l = true) by (apply existsb_exists; eauto). congruence.
Qed.

Lemma Own_step : forall t s e, Inv s -> Fin s -> Own t s -> aliases t s e = false -> Own t (fst (step qn s e)).
Proof.
  intros t s e HI HF [O1 O2] Ha. destruct e; simpl; try (split; assumption).
  - (* Register *)
    destruct (register_cases s t0 r force weak) as [[e ->]|(Hb & Hf & ->)]; simpl; [split; assumption|].
    unfold commit. set (i' := req_ident (ngen s) r) in *.
    destruct (commit_s1 s t0 i' force) as (R1 & _ & _ & Hm).
    split; simpl; rewrite R1.
    + intros i w0 L. destruct (ident_eqb_spec i i').
      * subst i. rewrite lookup_set_same in L. injection L as -> ->.
        unfold upd. rewrite target_eqb_refl. auto.
      * rewrite lookup_set_other in L; auto. destruct (O1 i w0 L) as [P D].
        unfold upd. destruct (target_eqb_spec t t0).
        -- exfalso. subst t0. destruct force.
           ++ simpl in Ha. rewrite target_eqb_refl in Ha. simpl in Ha. apply orb_false_iff in Ha as [Ha _].
              pose proof (existsb_false_In _ _ (i, mk_entry (Some t) w0) Ha (lookup_In _ _ _ L)) as X.
              simpl in X. rewrite holds_refl in X. fold i' in X.
              destruct (ident_eqb_spec i i'); [congruence|discriminate].
           ++ destruct (Hf eq_refl) as [_ Hd]. unfold dup_object in Hd. rewrite P, L, holds_refl in Hd.
              simpl in Hd. discriminate.
        -- destruct (Hm t) as [[A B]|(_ & _ & _ & C)]; [rewrite A, B; auto | congruence].
    + intros e0 L H. destruct (ident_eqb_spec IdDaemon i') as [E|E].
      * rewrite E, lookup_set_same in L. injection L as <-.
        apply holds_true in H. simpl in H. injection H as ->. simpl.
        destruct r; simpl in E; try discriminate.
        destruct force.
        -- simpl in Ha. rewrite target_eqb_refl in Ha. simpl in Ha. apply orb_false_iff in Ha as [_ Ha]. auto.
        -- destruct (Hf eq_refl) as [Hmem _]. apply mem_lookup in Hmem. simpl in Hmem.
           destruct HI as [_ _ D]. congruence.
      * rewrite lookup_set_other in L; eauto.
  - (* UnregObj *)
    unfold unreg_obj. destruct (pid s t0) as [j|] eqn:Pj; [|split; assumption]. simpl.
    destruct (lookup j (reg s)) as [e|] eqn:Lj.
    2: { simpl. destruct (ident_eqb j IdDaemon); split; assumption. }
    destruct (holds e t0) eqn:H; simpl; [|split; assumption].
    destruct (ident_eqb j IdDaemon); [split; assumption|].
    assert (Own t (mk_state (remove j (reg s)) (upd (pid s) t0 None) (upd (pd s) t0 false) (fins s) (ngen s))).
    { split; simpl.
      - intros i w L. destruct (ident_eqb_spec i j); [subst; rewrite lookup_remove_same in L; discriminate|].
        rewrite lookup_remove_other in L; auto. destruct (O1 i w L) as [P D].
        unfold upd. destruct (target_eqb_spec t t0); [subst; congruence | auto].
      - intros e0 L. apply lookup_remove_sub in L. eauto. }
    destruct (pd s t0); exact H0.
  - (* UnregId *)
    destruct (ident_eqb_spec i IdDaemon); [subst; rewrite unreg_id_daemon_id; split; assumption|].
    split.
    + intros j w L. pose proof (unreg_id_lookup_sub _ _ _ _ L) as L0. destruct (O1 j w L0) as [P D].
      rewrite unreg_id_pid. split; auto. apply unreg_id_pd_keep; auto.
      intro E. rewrite P in E. injection E as ->. rewrite unreg_id_gone in L; auto. discriminate.
    + rewrite unreg_id_daemon. auto.
  - (* Gc *)
    destruct (gc_cases s o) as [[_ ->]|(SH & R & PI & PD & PK & _ & _)]; [split; assumption|].
    destruct (gc_collects s o HF R) as (G1 & _ & G3).
    split.
    + intros i w L. pose proof (G3 _ _ L) as L0. destruct (target_eqb_spec t (PObj o)).
      * exfalso. subst t. destruct (ident_eqb_spec i IdDaemon).
        -- subst i. pose proof (O2 _ L0 (holds_refl _ _)) as W. simpl in W.
           pose proof (not_strongly_held _ _ _ _ SH L0 (holds_refl _ _)) as W'. simpl in W'. congruence.
        -- pose proof (G1 i _ n L) as X. rewrite holds_refl in X. discriminate.
      * destruct (O1 i w L0) as [P D]. rewrite PI, PK by auto. unfold upd.
        destruct (target_eqb_spec t (PObj o)); [congruence|auto].
    + intros e L. eauto.
Qed.

Lemma Own_run : forall t h s, Inv s -> Fin s -> Own t s -> unaliased_from t s h = true -> Own t (fst (run qn s h)).
Proof.
  induction h; intros s HI HF HO Hu; [simpl; auto|]. simpl in Hu.
  apply andb_true_iff in Hu as [A B]. apply negb_true_iff in A.
  rewrite run_fst_cons. apply IHh; auto.
  - apply Inv_step; auto.
  - apply Fin_step; auto.
  - apply Own_step; auto.
Qed.

Lemma Own_final : forall t h, unaliased t h = true -> Own t (final qn h).
Proof. intros. apply Own_run; auto. apply Inv_init. apply Fin_init. apply Own_init. Qed.

Lemma proxy_iff_registered : forall h o i, unaliased (PObj o) h = true ->
  (registered_at (final qn h) i (PObj o) <->
   snd (step qn (final qn h) (Return o)) = RProxy i (Some (PObj o))).
Proof.
  intros h o i Hu. split.
  - intros [w L]. destruct (Own_final _ _ Hu) as [O1 _]. destruct (O1 i w L) as [P D].
    simpl. unfold do_return. rewrite D, P, L, holds_refl. auto.
  - intro R. apply proxy_reaches_same_object in R. tauto.
Qed.

Lemma unaliased_one_id : forall h t i j, unaliased t h = true ->
  registered_at (final qn h) i t -> registered_at (final qn h) j t -> i = j.
Proof.
  intros h t i j Hu [w L] [w' L']. destruct (Own_final _ _ Hu) as [O1 _].
  destruct (O1 i w L) as [P _]. destruct (O1 j w' L') as [P' _]. congruence.
Qed.

(* ---- (2) a second registration of the same object is refused unless forced ---- *)
Lemma second_registration_refused : forall h t r w, unaliased t h = true -> is_registered (final qn h) t ->
  exists e, step qn (final qn h) (Register t r false w) = (final qn h, RErr e) /\
            (r <> RBad -> is_class t && w = false -> e = EDaemonError).
Proof.
  intros h t r w Hu [i [w0 L]]. destruct (Own_final _ _ Hu) as [O1 _]. destruct (O1 i w0 L) as [P D].
  assert (Hd : dup_object qn (final qn h) t = true).
  { unfold dup_object. rewrite P, L, holds_refl. auto. }
  simpl. unfold register.
  destruct r; try (eexists; split; [reflexivity|intros; congruence]);
  (destruct (is_class t && w); [eexists; split; [reflexivity|intros; congruence]|];
   simpl; rewrite Hd; eexists; split; [reflexivity|auto]).
Qed.

(* ---- (4) generated ids ---- *)
Lemma generated_id_fresh : forall h t f w i,
  let s := final qn h in
  snd (step qn s (Register t RGen f w)) = RUri i ->
  lookup i (reg s) = None /\
  registered_at (fst (step qn s (Register t RGen f w))) i t /\
  (forall j, j <> i -> lookup j (reg (fst (step qn s (Register t RGen f w)))) = lookup j (reg s)).
Proof.
  intros h t f w i s. pose proof (Inv_final h) as HI. fold s in HI. clearbody s. simpl.
  destruct (register_cases s t RGen f w) as [[e ->]|(_ & _ & ->)]; simpl; [discriminate|].
  intro E; injection E as <-.
  destruct (commit_s1 s t (IdGen (ngen s)) f) as (R1 & _).
  split; [|split].
  - destruct (lookup (IdGen (ngen s)) (reg s)) eqn:L; auto.
    apply (inv_fresh _ HI) in L. exfalso. apply (Nat.lt_irrefl _ L).
  - exists w. unfold commit; simpl. apply lookup_set_same.
  - intros j Hne. unfold commit; simpl. rewrite R1. apply lookup_set_other; auto.
Qed.

(* ---- what uriFor(obj) / proxyFor(obj) report ---- *)
Lemma uri_names_own_registration : forall s t i,
  (snd (step qn s (UriObj t)) = RUri i \/ snd (step qn s (ProxyObj t)) = RUri i) -> registered_at s i t.
Proof.
  intros s t i. simpl. unfold uri_obj. intro H. assert (X : match pid s t with
    | Some i0 => match lookup i0 (reg s) with
                 | Some e => if holds e t || false then RUri i0 else RErr EDaemonError
                 | None => RErr EDaemonError end
    | None => RErr EDaemonError end = RUri i) by (destruct H; auto). clear H.
  destruct (pid s t) as [j|]; [|discriminate]. destruct (lookup j (reg s)) as [e|] eqn:L; [|discriminate].
  destruct (holds e t) eqn:H; simpl in X; [|discriminate]. injection X as <-.
  exists (e_weak e). rewrite L. f_equal. apply entry_eta. apply holds_true; auto.
Qed.
