(* C07 — the lemmas of Proofs/Excs.v instantiated at the tables and handler facts generated
   from the source tree (Gen/GenExcs.v); the per-class side conditions are discharged by
   computed checks over the finite generated class table. *)
From Coq Require Import List NArith ZArith Arith Bool Lia String.
Import ListNotations.
From V Require Import Model.Excs Proofs.Excs Gen.GenExcs.

(* classes the property can hold for today: Exception subclasses outside the
   CommunicationError and SecurityError families *)
Definition good (ci : cinfo) : bool :=
  isa ci c_Exception && negb (isa ci c_CommunicationError) && negb (isa ci c_SecurityError).

Lemma gen_wf : wf_tables gen_tables = true.
Proof. vm_compute. reflexivity. Qed.

Lemma gen_shape :
  f_send_sets_tb gen_facts = true /\ f_fallback gen_facts = true /\ f_fallback_class gen_facts = c_PyroError /\
  f_fallback_tb gen_facts = true /\ f_batch_tb gen_facts = true.
Proof. vm_compute. repeat split. Qed.

Definition decided (ci : cinfo) : bool :=
  match decide gen_tables (qname ci) true with DMake q => text_eqb q (qname ci) | DFail _ => false end.
Lemma whitelist_check : forallb decided exc_table = true.
Proof. vm_compute. reflexivity. Qed.
Lemma whitelist_all : forall ci, In ci exc_table -> decide gen_tables (qname ci) true = DMake (qname ci).
Proof.
  intros ci H. pose proof (forallb_In decided _ _ whitelist_check H) as D. unfold decided in D.
  destruct (decide gen_tables (qname ci) true) as [q|c]; try discriminate.
  apply text_eqb_eq in D. rewrite D. reflexivity.
Qed.

Definition is_keep (a : action) : bool := match a with ReplyKeep => true | _ => false end.
Definition good_checks (ci : cinfo) : bool :=
  implb (good ci)
    (is_keep (route gen_facts ci) && isa ci (f_batch_catch gen_facts) &&
     negb (releases gen_tables gen_facts (qname ci)) &&
     Bool.eqb (isa (find_class gen_tables (qname ci)) c_StopIteration) (isa ci c_StopIteration)).
Lemma good_check : forallb good_checks exc_table = true.
Proof. vm_compute. reflexivity. Qed.

Lemma good_facts : forall ci, In ci exc_table -> good ci = true ->
  route gen_facts ci = ReplyKeep /\ isa ci (f_batch_catch gen_facts) = true /\
  releases gen_tables gen_facts (qname ci) = false /\
  isa (find_class gen_tables (qname ci)) c_StopIteration = isa ci c_StopIteration.
Proof.
  intros ci H G. pose proof (forallb_In good_checks _ _ good_check H) as D. unfold good_checks in D.
  rewrite G in D. cbn [implb] in D.
  apply andb_prop in D; destruct D as [D D4].
  apply andb_prop in D; destruct D as [D D3].
  apply andb_prop in D; destruct D as [D1 D2].
  repeat split.
  - destruct (route gen_facts ci); try discriminate. reflexivity.
  - exact D2.
  - destruct (releases gen_tables gen_facts (qname ci)); [discriminate|reflexivity].
  - apply eqb_prop. exact D4.
Qed.

(* never a hang: no class of the table is left without a reply on a connection that stays open *)
Definition not_hang (a : action) : bool := match a with NoReplyKeep => false | _ => true end.
Lemma never_hangs_check : forallb (fun ci => not_hang (route gen_facts ci)) exc_table = true.
Proof. vm_compute. reflexivity. Qed.
Lemma never_hangs : forall ci, In ci exc_table -> route gen_facts ci <> NoReplyKeep.
Proof.
  intros ci H E. pose proof (forallb_In _ _ _ never_hangs_check H) as D. cbv beta in D. rewrite E in D. discriminate.
Qed.

(* with the re-raise moved inside the `if not isinstance(xv, ConnectionClosedError)` block that class is
   neither answered nor re-raised: the caller blocks *)
Definition facts_guarded_reraise : facts := {|
  f_catch := f_catch facts_today; f_noreply := f_noreply facts_today; f_reply_if := f_reply_if facts_today;
  f_reply_unless := f_reply_unless facts_today; f_reraise := f_reraise facts_today; f_reraise_guarded := true;
  f_batch_catch := f_batch_catch facts_today; f_batch_tb := true; f_send_sets_tb := true; f_fallback := true;
  f_fallback_catch := f_fallback_catch facts_today; f_fallback_class := c_PyroError;
  f_fallback_tb := true; f_client_release := f_client_release facts_today |}.

Lemma fallback_releases : releases gen_tables gen_facts c_PyroError = false /\ releases gen_tables gen_facts c_TypeError = false.
Proof. vm_compute. split; reflexivity. Qed.

Lemma quirks_none_marshal : forall s, is_marshal s && q_marshal_none_kwargs quirks_none = false.
Proof. intros. apply andb_false_r. Qed.

(* a serialiser's error is an ordinary exception: Exception and BaseException are in its MRO *)
Definition c_BaseException : text := Eval compute in t "builtins.BaseException"%string.
Definition is_exception (c : cinfo) : bool := isa c c_Exception && isa c c_BaseException.

(* the generated `except` of _sendExceptionResponse's fallback is general: it names Exception or
   BaseException (a bare except is recorded as BaseException) *)
Lemma gen_fallback_general :
  mem c_Exception (f_fallback_catch gen_facts) || mem c_BaseException (f_fallback_catch gen_facts) = true.
Proof. vm_compute. reflexivity. Qed.

Lemma mem_isa_any : forall c b l, mem b l = true -> isa c b = true -> isa_any c l = true.
Proof.
  intros c b l Hm Hi. unfold isa_any. apply existsb_exists.
  unfold mem in Hm. apply existsb_exists in Hm. destruct Hm as [y [Hin He]].
  apply text_eqb_eq in He. subst y. exists b. split; assumption.
Qed.

Lemma gen_fallback_catches : forall c, is_exception c = true -> isa_any c (f_fallback_catch gen_facts) = true.
Proof.
  intros c H. unfold is_exception in H. apply andb_prop in H. destruct H as [H1 H2].
  pose proof gen_fallback_general as G. apply orb_prop in G. destruct G as [G|G].
  - exact (mem_isa_any c _ _ G H1).
  - exact (mem_isa_any c _ _ G H2).
Qed.

Section Gen.
  Variable codec : ser -> xval -> option xval.
  Variable serr : ser -> xval -> cinfo.
  Variable ctor : text -> list xval -> option (list xval).
  Hypothesis codec_plain : forall s v, plain v = true -> codec s v = Some v.

  Definition grun := run quirks_none gen_tables gen_facts codec serr ctor.

  Lemma exc_roundtrip_gen : forall ci, In ci exc_table -> good ci = true ->
    forall s k args attrs tbv, single_kind k = true ->
    core_list args = true -> core_attrs attrs = true -> plain tbv = true ->
    ctor (qname ci) args = Some args ->
    grun s k {| e_cls := ci; e_args := args; e_attrs := attrs |} tbv =
    {| r_before := 0; r_out := ORaised (qname ci) args (set_attr k_traceback tbv attrs); r_conn := conn_ok |}.
  Proof.
    intros ci Hin Hg s k args attrs tbv Hk Ha Hat Hp Hc.
    destruct (good_facts ci Hin Hg) as [Hr [_ [Hrel _]]].
    destruct gen_shape as [Htb _].
    unfold grun. rewrite run_single by (auto using quirks_none_marshal).
    rewrite (roundtrip_single gen_tables gen_facts codec serr ctor codec_plain s {| e_cls := ci; e_args := args; e_attrs := attrs |} tbv gen_wf Htb Hr
               (whitelist_all ci Hin) Hc Ha Hat Hp).
    cbn [e_cls e_args e_attrs]. unfold mk. rewrite Hrel. reflexivity.
  Qed.

  Lemma exc_roundtrip_batch_gen : forall ci, In ci exc_table -> good ci = true ->
    isa ci c_StopIteration = false ->
    forall s before args attrs tbv,
    forallb plain before = true -> forallb nodict before = true ->
    core_list args = true -> core_attrs attrs = true -> plain tbv = true ->
    ctor (qname ci) args = Some args ->
    grun s (KBatch before) {| e_cls := ci; e_args := args; e_attrs := attrs |} tbv =
    {| r_before := List.length before; r_out := ORaised (qname ci) args (set_attr k_traceback tbv attrs); r_conn := conn_ok |}.
  Proof.
    intros ci Hin Hg Hsi s before args attrs tbv Hpb Hnb Ha Hat Hp Hc.
    destruct (good_facts ci Hin Hg) as [_ [Hb [_ Hs]]].
    destruct gen_shape as [_ [_ [_ [_ Hbtb]]]].
    unfold grun. cbn [run]. rewrite quirks_none_marshal.
    rewrite (roundtrip_batch gen_tables gen_facts codec serr ctor codec_plain quirks_none s before {| e_cls := ci; e_args := args; e_attrs := attrs |} tbv gen_wf Hbtb);
      cbn [e_cls e_args e_attrs]; auto.
    - apply andb_false_r.
    - apply whitelist_all; assumption.
    - rewrite Hs. assumption.
  Qed.

  Lemma exc_fallback_gen : forall ci, (route gen_facts ci = ReplyKeep \/ route gen_facts ci = ReplyClose) ->
    forall s k args attrs tbv, single_kind k = true ->
    codec s (class_to_dict gen_tables (with_tb {| e_cls := ci; e_args := args; e_attrs := attrs |} tbv)) = None ->
    is_exception (serr s (class_to_dict gen_tables (with_tb {| e_cls := ci; e_args := args; e_attrs := attrs |} tbv))) = true ->
    r_out (grun s k {| e_cls := ci; e_args := args; e_attrs := attrs |} tbv) = OFallback c_PyroError (qname ci) true.
  Proof.
    intros ci Hr s k args attrs tbv Hk Hn He.
    destruct gen_shape as [Htb [Hfb [Hfc [Hft _]]]].
    unfold grun. rewrite run_single by (auto using quirks_none_marshal).
    rewrite (fallback_single gen_tables gen_facts codec serr ctor s {| e_cls := ci; e_args := args; e_attrs := attrs |} tbv Hfb Hr).
    - rewrite Hfc, Hft. reflexivity.
    - rewrite Htb. exact Hn.
    - rewrite Htb. apply gen_fallback_catches. exact He.
  Qed.

  Hypothesis codec_opaque : forall s v, plain v = false -> codec s v = None.
  Hypothesis serr_exception : forall s v, is_exception (serr s v) = true.

  Lemma proxy_usable_gen : forall ci, In ci exc_table -> good ci = true ->
    forall s k args attrs tbv, single_kind k = true ->
    r_conn (grun s k {| e_cls := ci; e_args := args; e_attrs := attrs |} tbv) = conn_ok.
  Proof.
    intros ci Hin Hg s k args attrs tbv Hk.
    destruct (good_facts ci Hin Hg) as [Hr [_ [Hrel _]]].
    destruct gen_shape as [Htb [Hfb [Hfc _]]].
    destruct fallback_releases as [R1 R2].
    unfold grun. rewrite run_single by (auto using quirks_none_marshal).
    apply (conn_single gen_tables gen_facts codec serr ctor codec_plain codec_opaque (fun s v => gen_fallback_catches _ (serr_exception s v)) s {| e_cls := ci; e_args := args; e_attrs := attrs |} tbv gen_wf Htb Hfb Hr
             (whitelist_all ci Hin) Hrel); [rewrite Hfc; exact R1 | exact R2].
  Qed.
End Gen.

(* every good class exists: the hypotheses are satisfiable *)
Lemma good_nonempty : 40 <= List.length (filter good exc_table).
Proof. vm_compute. repeat constructor. Qed.

(* ---------------------------------------------------------------- witnesses of today's deviations
   (handler structure [facts_today], independent of what Gen extracts on a later tree) *)
Definition tb0 : xval := XStr [84%N; 66%N].
Definition wrun := run quirks_none gen_tables facts_today std_codec (std_serr gen_tables) std_ctor.
Definition cls (qn : text) : cinfo := find_class gen_tables qn.
Definition simple_exc (qn : text) : exc := {| e_cls := cls qn; e_args := [XStr [120%N]; XInt 3]; e_attrs := [([102%N], XNone)] |}.
Definition opaque_exc (qn : text) : exc := {| e_cls := cls qn; e_args := [XStr [120%N]]; e_attrs := [([98%N], XOpaque)] |}.
Definition c_SystemExit : text := Eval compute in t "builtins.SystemExit"%string.

Lemma witness_classes_real :
  isa (cls c_CommunicationError) c_Exception = true /\ isa (cls c_SecurityError) c_Exception = true /\
  isa (cls c_SystemExit) c_Exception = false /\ List.length (c_mro (cls c_SystemExit)) = 2 /\
  isa (cls c_StopIteration) c_Exception = true /\ isa (cls c_SerializeError) c_CommunicationError = true.
Proof. vm_compute. repeat split. Qed.

Lemma comm_error_unreported : forall s,
  r_out (wrun s KPlain (simple_exc c_CommunicationError) tb0) = OConnLost /\
  r_out (wrun s KAttr (simple_exc c_TimeoutError) tb0) = OConnLost /\
  r_out (wrun s KStream (simple_exc c_ConnectionClosedError) tb0) = OConnLost.
Proof. destruct s; vm_compute; repeat split. Qed.

Lemma security_error_dead_conn : forall s,
  r_out (wrun s KPlain (simple_exc c_SecurityError) tb0) =
    ORaised c_SecurityError [XStr [120%N]; XInt 3] [([102%N], XNone); (k_traceback, tb0)] /\
  usable (r_conn (wrun s KPlain (simple_exc c_SecurityError) tb0)) = false /\
  (* the fallback after a SerializeError with unserialisable content: same dead connection *)
  r_out (wrun s KPlain (opaque_exc c_SerializeError) tb0) = OFallback c_PyroError c_SerializeError true /\
  usable (r_conn (wrun s KPlain (opaque_exc c_SerializeError) tb0)) = false.
Proof. destruct s; vm_compute; repeat split. Qed.

Lemma non_exception_unreported : forall s,
  r_out (wrun s KPlain (simple_exc c_SystemExit) tb0) = OConnLost /\
  r_out (wrun s (KBatch [XInt 100]) (simple_exc c_KeyboardInterrupt) tb0) = OConnLost.
Proof. destruct s; vm_compute; repeat split. Qed.

Lemma batch_no_fallback :
  r_out (wrun Serpent (KBatch [XInt 100]) (opaque_exc c_ValueError) tb0) = OSerErr c_TypeError /\
  r_out (wrun Json (KBatch [XInt 100]) (opaque_exc c_ValueError) tb0) = OSerErr c_SerializeError /\
  r_before (wrun Json (KBatch [XInt 100]) (opaque_exc c_ValueError) tb0) = 0.
Proof. vm_compute. repeat split. Qed.

Lemma batch_stopiteration : forall s,
  wrun s (KBatch [XInt 100]) (simple_exc c_StopIteration) tb0 =
  {| r_before := 1; r_out := OClientErr c_RuntimeError; r_conn := conn_ok |}.
Proof. destruct s; vm_compute; reflexivity. Qed.

Lemma marshal_none_kwargs : forall sh,
  let Q := {| q_marshal_none_kwargs := true; q_marshal_shallow := sh |} in
  r_out (run Q gen_tables facts_today std_codec (std_serr gen_tables) std_ctor Marshal KAttr (simple_exc c_ValueError) tb0) = OLocalErr c_AttributeError /\
  r_out (run Q gen_tables facts_today std_codec (std_serr gen_tables) std_ctor Marshal (KBatch []) (simple_exc c_ValueError) tb0) = OLocalErr c_AttributeError.
Proof. destruct sh; vm_compute; split; reflexivity. Qed.

Lemma marshal_batch_shallow :
  let Q := {| q_marshal_none_kwargs := false; q_marshal_shallow := true |} in
  r_out (run Q gen_tables facts_today std_codec (std_serr gen_tables) std_ctor Marshal (KBatch [XInt 100]) (simple_exc c_ValueError) tb0) = OSerErr c_ValueError.
Proof. vm_compute. reflexivity. Qed.

Lemma cls_in : forall qn c, find (fun c => text_eqb (qname c) qn) exc_table = Some c -> In (cls qn) exc_table.
Proof.
  intros qn c H. unfold cls, find_class. change (t_classes gen_tables) with exc_table. rewrite H.
  apply find_some in H. tauto.
Qed.
Lemma value_error_in : In (cls c_ValueError) exc_table.
Proof.
  destruct (find (fun c => text_eqb (qname c) c_ValueError) exc_table) as [c|] eqn:E.
  - exact (cls_in _ _ E).
  - vm_compute in E. discriminate.
Qed.
Lemma value_error_good : good (cls c_ValueError) = true.
Proof. vm_compute. reflexivity. Qed.

(* why the fallback's `except` has to be general: with it narrowed to the classes serializers usually raise,
   content whose serialisation raises anything else (here KeyError from a __getstate__) gets no reply *)
Definition facts_narrow_fallback : facts := {|
  f_catch := f_catch facts_today; f_noreply := f_noreply facts_today; f_reply_if := f_reply_if facts_today;
  f_reply_unless := f_reply_unless facts_today; f_reraise := f_reraise facts_today; f_reraise_guarded := false;
  f_batch_catch := f_batch_catch facts_today; f_batch_tb := true; f_send_sets_tb := true; f_fallback := true;
  f_fallback_catch := [c_SerializeError; c_TypeError; c_ValueError]; f_fallback_class := c_PyroError;
  f_fallback_tb := true; f_client_release := f_client_release facts_today |}.
Definition badobj_exc (qn err : text) : exc :=
  {| e_cls := cls qn; e_args := [XStr [120%N]]; e_attrs := [([98%N], XBadObj (cls err))] |}.
Lemma narrow_fallback_loses_reply : forall s,
  r_out (run quirks_none gen_tables facts_narrow_fallback std_codec (std_serr gen_tables) std_ctor s KPlain
           (badobj_exc c_ValueError c_KeyError) tb0) = OConnLost /\
  r_out (run quirks_none gen_tables facts_today std_codec (std_serr gen_tables) std_ctor s KPlain
           (badobj_exc c_ValueError c_KeyError) tb0) = OFallback c_PyroError c_ValueError true.
Proof. destruct s; vm_compute; split; reflexivity. Qed.

Lemma guarded_reraise_hangs : forall s,
  r_out (run quirks_none gen_tables facts_guarded_reraise std_codec (std_serr gen_tables) std_ctor s KPlain
           (simple_exc c_ConnectionClosedError) tb0) = OHang /\
  r_out (run quirks_none gen_tables facts_today std_codec (std_serr gen_tables) std_ctor s KPlain
           (simple_exc c_ConnectionClosedError) tb0) = OConnLost.
Proof. destruct s; vm_compute; split; reflexivity. Qed.

(* the traceback delivered is the one of the current call, whatever the exception object carried before *)
Lemma traceback_of_this_call : forall attrs tbv stale,
  assoc k_traceback (set_attr k_traceback tbv (set_attr k_traceback stale attrs)) = Some tbv.
Proof. intros. apply assoc_set_attr. Qed.
