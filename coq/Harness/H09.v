(* C09 correspondence: one case = class table + creator script + a sequential history of
   Call/Close events (played through the in-process loopback with real proxies) followed by a
   concurrent phase (real threads calling Daemon._getInstance under the cooperative scheduler),
   together with what the real daemon did.  The model is run with the shape the extractor read
   off the tree under test (Gen.GenInstances.code_shape). *)
From Coq Require Import List Arith Bool.
Import ListNotations.
From V Require Import Model.Atomic Model.Instances Gen.GenInstances Harness.Cmp.

Record case := {
  c_modes : list imode;            (* class i -> mode (unlisted: session, the default of Daemon.register) *)
  c_falsy : list bool;             (* class i defines __bool__ / __len__: its instances can be falsy *)
  c_eq : list bool;                (* class i defines __eq__/__hash__: instances can compare equal to None *)
  c_creator : list bool;           (* class i has an instance_creator *)
  c_script : list outcome;         (* what the n-th creator invocation does *)
  c_dflt : outcome;
  c_hist : list (nat * event);     (* (daemon, event): several daemons in the process serve the same classes *)
  c_cd : nat;                      (* the daemon on which the concurrent phase runs *)
  c_ncls : nat;
  c_calls : list (list nat);       (* concurrent phase: thread i calls these (single) classes *)
  c_sched : list nat;
  (* observed on the implementation *)
  c_obs : list (list obs);                       (* per daemon *)
  c_results : list (list (nat * obs));
  c_done : list bool;
  c_log : list (list (nat * outcome));           (* per daemon *)
  c_singles : list (list (option nat));          (* per daemon, per class *)
  c_sessions : list (list (list (option nat))) }. (* per daemon, per connection, per class *)

(* an instance can only be falsy / equal to None if its class defines the special methods, and only
   a creator can return an object of the wrong type (a failing constructor just raises) *)
Definition hworld (c : case) : world :=
  fun n cl =>
    match nth n (c_script c) (c_dflt c) with
    | OMade t e => OMade (t || negb (nth cl (c_falsy c) false)) (e && nth cl (c_eq c) false)
    | OWrong => if nth cl (c_creator c) false then OWrong else OFail
    | OFail => OFail
    end.
Definition hmodes (c : case) : nat -> imode := fun cl => nth cl (c_modes c) MSession.

Definition inst_eqb (a b : inst) : bool :=
  Nat.eqb (iid a) (iid b) && Nat.eqb (icls a) (icls b) && Bool.eqb (itruthy a) (itruthy b) && Bool.eqb (ieqnone a) (ieqnone b).
Definition obs_eqb (a b : obs) : bool :=
  match a, b with
  | Served x, Served y => inst_eqb x y
  | Failed x, Failed y => Bool.eqb x y
  | Closed, Closed => true
  | Admin, Admin => true
  | _, _ => false
  end.
Definition outcome_eqb (a b : outcome) : bool :=
  match a, b with
  | OFail, OFail | OWrong, OWrong => true
  | OMade t e, OMade t' e' => Bool.eqb t t' && Bool.eqb e e'
  | _, _ => false
  end.

Definition thread_done (th : thread st regs) : bool :=
  match cur th, todo th with None, [] => true | _, _ => false end.

(* the model appends a call's result to [done] in the last access of the critical section; the
   real call returns (and the harness sees the result) only after the release step *)
Definition visible (th : thread st regs) : list (nat * obs) :=
  match cur th with
  | Some Ret => removelast (done (tregs th))
  | _ => done (tregs th)
  end.

Record out := { o_obs : list (list obs); o_results : list (list (nat * obs)); o_done : list bool;
                o_log : list (list (nat * outcome)); o_singles : list (list (option nat));
                o_sessions : list (list (list (option nat))) }.

Definition model_case (c : case) : out :=
  let w := hworld c in
  let modes := hmodes c in
  let m := mrun code_shape (fun _ => w) modes (c_hist c) in
  let cf := run (c_sched c) (conc_init code_shape w (fst (m (c_cd c))) (c_calls c)) in
  let state := fun d => if Nat.eqb d (c_cd c) then shared cf else fst (m d) in
  let ds := seq 0 (length (c_obs c)) in
  let cls := seq 0 (c_ncls c) in
  let idx := seq 0 (length (c_calls c)) in
  {| o_obs := map (fun d => map snd (snd (m d))) ds;
     o_results := map (fun i => visible (threads cf i)) idx;
     o_done := map (fun i => thread_done (threads cf i)) idx;
     o_log := map (fun d => log (state d)) ds;
     o_singles := map (fun d => map (fun cl => option_map iid (singles (state d) cl)) cls) ds;
     o_sessions := map (fun d => map (fun k => map (fun cl => option_map iid (sessions (state d) k cl)) cls)
                                     (seq 0 (length (nth d (c_sessions c) [])))) ds |}.

Definition check_case (c : case) : bool :=
  let m := model_case c in
  list_eqb (list_eqb obs_eqb) (o_obs m) (c_obs c) &&
  list_eqb (list_eqb (pair_eqb Nat.eqb obs_eqb)) (o_results m) (c_results c) &&
  list_eqb Bool.eqb (o_done m) (c_done c) &&
  list_eqb (list_eqb (pair_eqb Nat.eqb outcome_eqb)) (o_log m) (c_log c) &&
  list_eqb (list_eqb (option_eqb Nat.eqb)) (o_singles m) (c_singles c) &&
  list_eqb (list_eqb (list_eqb (option_eqb Nat.eqb))) (o_sessions m) (c_sessions c).
