(* C03 correspondence: run the ClientProto model on a history (calls with their fault scripts) and
   compare, call by call, with what the real Proxy/Daemon pair did over the loopback transport
   (recorded by tools/harness/C03.py). *)
From Coq Require Import List NArith Arith Bool.
Import ListNotations.
From V Require Import Model.ClientProto Gen.GenClient Harness.Cmp.

(* the client's defences and constants as extracted from Pyro5/client.py on this run *)
Definition gen_def : defences :=
  mkDef release_on_comm_error seqcheck_before_use seq_mask retry_on_closed retry_on_timeout retry_on_protocol.

(* observation of one call: outcome (token seen by the caller / error class), number of times the
   server executed this call's request, whether the proxy still holds a connection, its _pyroSeq *)
Inductive oobs := BResult (t : N) | BRaised (t : N) | BSec (t : N) | BNone | BErr (e : err).
Record cobs := mkObs { ob_out : oobs; ob_execs : N; ob_conn : bool; ob_seq : N }.

Record case := mkCase { cs_retries : nat; cs_seq0 : N; cs_conn0 : bool; cs_calls : list call; cs_obs : list cobs }.

Definition err_eqb (a b : err) : bool :=
  match a, b with ETimeout, ETimeout | EClosed, EClosed | EProtocol, EProtocol => true | _, _ => false end.

Definition oobs_eqb (a b : oobs) : bool :=
  match a, b with
  | BResult x, BResult y | BRaised x, BRaised y | BSec x, BSec y => (x =? y)%N
  | BNone, BNone => true
  | BErr x, BErr y => err_eqb x y
  | _, _ => false
  end.

Definition obs_of_outcome (o : outcome) : oobs :=
  match o with
  | OResult t _ => BResult t | ORaised t _ => BRaised t | OSec t _ => BSec t | ONone => BNone | OErr e => BErr e
  end.

Definition connected (st : state) : bool := match p_conn st with Some _ => true | None => false end.

Fixpoint model_obs (st : state) (rs : list (outcome * state)) : list cobs :=
  match rs with
  | [] => []
  | (o, st') :: rs' => mkObs (obs_of_outcome o) (N.of_nat (execs st st')) (connected st') (p_seq st') :: model_obs st' rs'
  end.

Definition model_case (c : case) : list cobs :=
  let st0 := init_state (cs_seq0 c) (cs_conn0 c) in
  model_obs st0 (run gen_def (cs_retries c) st0 (cs_calls c)).

Definition cobs_eqb (a b : cobs) : bool :=
  oobs_eqb (ob_out a) (ob_out b) && (ob_execs a =? ob_execs b)%N && Bool.eqb (ob_conn a) (ob_conn b) && (ob_seq a =? ob_seq b)%N.

Definition check_case (c : case) : bool := list_eqb cobs_eqb (model_case c) (cs_obs c).
