(* C06 correspondence: encode and decode cases recorded by tools/harness/C06.py *)
From Coq Require Import List NArith Arith Bool.
Import ListNotations.
From V Require Import Model.Bytes Model.SockIO Model.Wire Model.WireIO Harness.Cmp.
Local Open Scope N_scope.

(* The property speaks of "raises an error": which exception class a rejection uses is incidental (a hardening
   that turns struct.error / AssertionError / UnicodeError rejections into ProtocolError keeps the property), so the
   correspondence compares accept/reject, the decoded fields and the bytes consumed, not the class of the error.
   The model keeps the classes of the pinned source (they matter to the C05 routing tables, not here). *)
Definition werr_eqb (a b : werr) : bool := true.
Definition ck_eqb (a b : N * N) : bool := (fst a =? fst b) && (snd a =? snd b).

(* encoder *)
Record ecase := { e_cfg : wcfg; e_msg : smsg; e_z : bytes; e_out : result (N * N) }.
Definition model_encode (c : ecase) : result (N * N) :=
  match encode (e_cfg c) (e_msg c) (e_z c) with Ok b => Ok (cksum b) | Err e => Err e end.
Definition enc_match (m o : result (N * N)) : bool :=
  match m, o with
  | Ok a, Ok b => ck_eqb a b
  | Err a, Err b => werr_eqb a b
  | _, _ => false
  end.
(* With compression switched on the sender may still send a payload as it is (the pinned code compresses above the
   threshold; a sender that skips compression when it does not shrink the payload keeps the property): the outcome
   must be the model's with compression either on or off -- both are covered by the theorems, which hold for every
   configuration. *)
Definition check_encode (c : ecase) : bool :=
  enc_match (model_encode c) (e_out c)
  || (compression (e_cfg c) &&
      enc_match (model_encode {| e_cfg := {| max_size := max_size (e_cfg c); compression := false |};
                                 e_msg := e_msg c; e_z := e_z c; e_out := e_out c |}) (e_out c)).

(* decoder: observation = header fields, checksum of data, annotations as (key, checksum) *)
Record dobs := { o_type : N; o_flags : N; o_seq : N; o_ser : N; o_data : N * N;
                 o_anns : list (bytes * (N * N)); o_corr : bytes }.
Record dcase := { d_cfg : wcfg; d_accepted : option (list N); d_unz : option bytes; d_stream : bytes;
                  d_out : result dobs; d_consumed : N;
                  d_waitall : bool; d_script : list sock_ev }.   (* what the fragmenting socket did, call by call *)
Definition obs_of (m : rmsg) : dobs :=
  {| o_type := r_type m; o_flags := r_flags m; o_seq := r_seq m; o_ser := r_ser m; o_data := cksum (r_data m);
     o_anns := map (fun kv => (fst kv, cksum (snd kv))) (r_anns m); o_corr := r_corr m |}.
Definition dobs_eqb (a b : dobs) : bool :=
  (o_type a =? o_type b) && (o_flags a =? o_flags b) && (o_seq a =? o_seq b) && (o_ser a =? o_ser b)
  && ck_eqb (o_data a) (o_data b) && list_eqb (pair_eqb bytes_eqb ck_eqb) (o_anns a) (o_anns b)
  && bytes_eqb (o_corr a) (o_corr b).
Definition model_decode (c : dcase) : result dobs * N :=
  let '(r, n) := recv_stub (d_cfg c) (d_accepted c) (d_unz c) (d_stream c) in
  (match r with Ok m => Ok (obs_of m) | Err e => Err e end, n).
Definition check_decode (c : dcase) : bool :=
  let '(r, n) := model_decode c in
  (n =? d_consumed c) &&
  match r, d_out c with
  | Ok a, Ok b => dobs_eqb a b
  | Err a, Err b => werr_eqb a b
  | _, _ => false
  end.

(* the same read through the socket model (Model/WireIO.v) with the recorded script: None = the socket
   layer raised (the real recv_stub then raised ConnectionClosedError) *)
Definition check_decode_io (c : dcase) : bool :=
  match recv_stub_io (d_cfg c) (d_accepted c) (d_unz c) (d_waitall c) (d_script c) (d_stream c), d_out c with
  | Some (Ok m, n), Ok b => dobs_eqb (obs_of m) b && (n =? d_consumed c)
  | Some (Err a, n), Err b => werr_eqb a b && (n =? d_consumed c)
  | None, Err _ => true
  | _, _ => false
  end.

Inductive case := EC (c : ecase) | DC (c : dcase).
Definition check_case (c : case) : bool :=
  match c with
  | EC e => check_encode e
  | DC d => check_decode d &&
            (* the socket-level replay is evaluated for streams up to 8 KiB (unary-nat bookkeeping of the socket
               model makes it slow on the 64 KiB streams of the thorough tier; those are still checked by
               check_decode, and C06_fragmentation_independent covers every size) *)
            (if Nlen (d_stream d) <=? 8192 then check_decode_io d else true)
  end.
