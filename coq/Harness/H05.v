(* C05 correspondence: run the containment event machine (Model/Containment.v over the tables
   generated from the tree under test) on the episodes recorded from a real daemon and compare
   with what the daemon did: reply sent per episode, connection closed or still served, disconnect
   hook, and at the end loop alive and Pool.busy / selector registrations. *)
From Coq Require Import List String Bool Arith.
Import ListNotations.
From V Require Import Model.ContainmentDefs Model.Containment Gen.GenHandlers Harness.Cmp.
Local Open Scope string_scope.

Record case := { c_srv : server; c_psize : nat; c_events : list event;
                 c_obs : list obs; c_alive : bool; c_acct : nat }.

Definition rkind_eqb (a b : rkind) : bool :=
  match a, b with
  | ConnOk, ConnOk | ConnFail, ConnFail | RepNormal, RepNormal | RepError, RepError => true
  | _, _ => false
  end.
Definition obs_eqb (a b : obs) : bool :=
  Nat.eqb (o_conn a) (o_conn b) && option_eqb rkind_eqb (o_reply a) (o_reply b)
  && Bool.eqb (o_open a) (o_open b) && Bool.eqb (o_hook a) (o_hook b) && Nat.eqb (o_left a) (o_left b).

(* the mro recorded at run time agrees with the generated hierarchy for every class the hierarchy knows *)
Definition mro_consistent (e : exc) : bool :=
  match e with
  | [] => false
  | c :: _ =>
      match find (fun p => String.eqb (fst p) c) (t_hier tables) with
      | Some _ => list_eqb String.eqb (mro tables c) e
      | None => true
      end
  end.
Definition faults_consistent (evs : list event) : bool :=
  forallb (fun ev => forallb (fun f => mro_consistent (f_exc f)) (e_script ev)) evs.

Definition model_run (c : case) : state * list obs := run tables (c_srv c) (c_psize c) (c_events c).

Definition check_case (c : case) : bool :=
  let '(s, os) := model_run c in
  list_eqb obs_eqb os (c_obs c) && Bool.eqb (alive s) (c_alive c)
  && Nat.eqb (accounting (c_srv c) s) (c_acct c) && faults_consistent (c_events c).

(* diagnostics *)
Definition model_diag (c : case) := (model_run c, faults_consistent (c_events c)).
