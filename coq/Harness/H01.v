(* C01 correspondence: one case = (serializer, path, value sent, what the implementation
   delivered), recorded by tools/harness/C01.py at the serializer level and end to end through
   the loopback transport.  The model is run with the hook table regenerated from the tree. *)
From Coq Require Import List NArith ZArith Bool.
Import ListNotations.
From V Require Import Model.Values Model.Serializers Harness.Cmp.

Definition fl_eqb (a b : fl) : bool :=
  match a, b with
  | FNaN, FNaN => true
  | FBits x, FBits y => N.eqb x y
  | _, _ => false
  end.

(* Python equality of the delivered objects with types kept apart (1 <> True <> 1.0, -0.0 <> 0.0,
   NaN = NaN); sets, frozensets and dicts are compared without order. *)
Fixpoint val_eqb (a b : val) : bool :=
  match a, b with
  | VNone, VNone => true
  | VBool x, VBool y => Bool.eqb x y
  | VInt x, VInt y => Z.eqb x y
  | VFloat x, VFloat y => fl_eqb x y
  | VStr x, VStr y => text_eqb x y
  | VBytes x, VBytes y => text_eqb x y
  | VList x, VList y | VTuple x, VTuple y =>
      (fix go (x y : list val) : bool :=
         match x, y with
         | [], [] => true
         | p :: x', q :: y' => val_eqb p q && go x' y'
         | _, _ => false
         end) x y
  | VSet x, VSet y | VFrozenSet x, VFrozenSet y =>
      Nat.eqb (length x) (length y) && forallb (fun p => existsb (val_eqb p) y) x
  | VDict x, VDict y =>
      Nat.eqb (length x) (length y) &&
      forallb (fun p => existsb (fun q => val_eqb (fst p) (fst q) && val_eqb (snd p) (snd q)) y) x
  | VComplex r i, VComplex r' i' => fl_eqb r r' && fl_eqb i i'
  | VUuid x, VUuid y => text_eqb x y
  | VDecimal x, VDecimal y => text_eqb x y
  | VDate o s, VDate o' s' => Z.eqb o o' && text_eqb s s'
  | VDateTime o s, VDateTime o' s' => Z.eqb o o' && text_eqb s s'
  | VExt c p, VExt c' p' => N.eqb c c' && val_eqb p p'
  | _, _ => false
  end.

Definition outcome_eqb (a b : outcome) : bool :=
  match a, b with
  | Delivered x, Delivered y => val_eqb x y
  | Refused, Refused => true
  | _, _ => false          (* a generated case for which the model says Outside counts as a mismatch *)
  end.

Record case := { k_ser : ser; k_path : path; k_in : val; k_out : outcome }.

Definition model_case (c : case) : outcome := wire gen_table (k_ser c) (k_path c) (k_in c).
Definition check_case (c : case) : bool := outcome_eqb (model_case c) (k_out c).
