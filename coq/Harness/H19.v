(* C19 correspondence: run the Uri model on a string and compare with what Pyro5.core.URI did
   (as recorded by tools/harness/C19.py). *)
From Coq Require Import List NArith ZArith Arith Bool.
Import ListNotations.
From V Require Import Model.Uri Gen.GenUri Harness.Cmp.

(* the tables of the interpreter the implementation runs on (regenerated every run) *)
Definition T : tables := {| t_ws := ws_table; t_intws := intws_table; t_dzero := dzero_table |}.

(* the state-tuple positions __eq__ compares / __hash__ covers, as found in the source on this run *)
Definition EF : list field := fields_of_codes eq_fields.
Definition HF : list field := fields_of_codes hash_fields.

Record case := {
  c_q : quirks;               (* which variant the code currently is (probed on the witnesses) *)
  c_ns : Z;                   (* config.NS_PORT *)
  c_s : text;                 (* the input string *)
  c_parse : option uri;       (* state of URI(s) (tags in any order), None = rejected with PyroError *)
  c_order : list text;        (* iteration order of the tag set (PYROMETA) *)
  c_str : text;               (* str(u) *)
  c_reparse : option uri;     (* state of URI(str(u)) *)
  c_eq12 : bool;              (* URI(str(u)) == u *)
  c_hash_ok : bool;           (* hash(u) did not raise *)
  c_s2 : text;                (* a second string (respelling / near variant of the first) *)
  c_parse2 : option uri;
  c_eq_v : bool               (* URI(s) == URI(s2) *)
}.

Definition opt_uri_eqb (a b : option uri) : bool :=
  match a, b with
  | None, None => true
  | Some x, Some y => uri_eqb x y
  | _, _ => false
  end.

Definition ntags (u : uri) : nat := match u_obj u with OTags l => length l | OName _ => 0 end.
Definition reorder (u : uri) (order : list text) : uri :=
  match u_obj u with OTags _ => with_tags u order | OName _ => u end.

Definition model_str (c : case) : option text :=
  match parse T (c_ns c) (c_s c) with
  | Some u => Some (print (c_q c) (reorder u (c_order c)))
  | None => None
  end.

(* The property speaks about the strings the implementation ACCEPTS.  So: what the implementation accepts must be what
   the model says it is; a string the implementation rejects although the model would accept it is not compared (a
   narrower accepted set keeps the property).  The re-parse of the implementation's own text form is compared strictly. *)
Definition accept_compat (m impl : option uri) : bool :=
  match impl with
  | None => true
  | Some y => match m with Some x => uri_eqb x y | None => false end
  end.

Definition check_case (c : case) : bool :=
  let m := parse T (c_ns c) (c_s c) in
  accept_compat m (c_parse c) &&
  match c_parse c, m with
  | Some _, Some u =>
    let u' := reorder u (c_order c) in
    let st := print (c_q c) u' in
    Nat.eqb (ntags u) (ntags u') &&
    text_eqb st (c_str c) &&
    (let m2 := parse T (c_ns c) st in
     opt_uri_eqb m2 (c_reparse c) &&
     match m2 with Some u2 => Bool.eqb (uri_eqb_on EF u2 u) (c_eq12 c) | None => true end) &&
    Bool.eqb (match hash_key_on (c_q c) (fun _ => 0%N) HF u with Some _ => true | None => false end) (c_hash_ok c)
  | _, _ => true
  end &&
  (let mv := parse T (c_ns c) (c_s2 c) in
   accept_compat mv (c_parse2 c) &&
   match c_parse c, c_parse2 c, m, mv with
   | Some _, Some _, Some u, Some v => Bool.eqb (uri_eqb_on EF u v) (c_eq_v c)
   | _, _, _, _ => true
   end).

(* diagnostics: what the model computes for a case *)
Definition model_out (c : case) :=
  let m := parse T (c_ns c) (c_s c) in
  (m, model_str c,
   match model_str c with Some st => parse T (c_ns c) st | None => None end,
   parse T (c_ns c) (c_s2 c)).

(* ---------- name-server store histories (any backend): model map vs what NameServer answered ---------- *)
Record scase := { sc_ns : Z; sc_ops : list sop; sc_obs : list sobs }.

Definition pair_text_eqb (a b : text * text) : bool := text_eqb (fst a) (fst b) && text_eqb (snd a) (snd b).
Definition listing_incl (a b : list (text * text)) : bool := forallb (fun x => existsb (pair_text_eqb x) b) a.
Definition sobs_eqb (a b : sobs) : bool :=
  match a, b with
  | ORegOk, ORegOk | ORegRejected, ORegRejected | ONone, ONone | OLookupBad, OLookupBad => true
  | ODel x, ODel y => N.eqb x y
  | OLookup x, OLookup y => opt_uri_eqb x y
  | OListing x, OListing y => Nat.eqb (length x) (length y) && listing_incl x y && listing_incl y x
  | _, _ => false
  end.
Definition model_store (c : scase) : list sobs := ns_run T (sc_ns c) [] (sc_ops c).
Definition check_scase (c : scase) : bool := list_eqb sobs_eqb (model_store c) (sc_obs c).
