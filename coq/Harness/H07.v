(* C07 correspondence: run Model/Excs.v (with the tables and handler facts generated from the
   tree) on one remote call that raises, compare with what the real Proxy/Daemon pair did. *)
From Coq Require Import List NArith ZArith Bool.
Import ListNotations.
From V Require Import Model.Excs Gen.GenExcs Harness.Cmp.

Fixpoint xval_eqb (a b : xval) {struct a} : bool :=
  match a, b with
  | XNone, XNone => true
  | XBool x, XBool y => Bool.eqb x y
  | XInt x, XInt y => Z.eqb x y
  | XStr x, XStr y => text_eqb x y
  | XList x, XList y =>
    (fix go (l1 l2 : list xval) : bool :=
       match l1, l2 with
       | [], [] => true
       | u :: l1', v :: l2' => xval_eqb u v && go l1' l2'
       | _, _ => false
       end) x y
  | XDict x, XDict y =>
    (fix go (l1 l2 : list (text * xval)) : bool :=
       match l1, l2 with
       | [], [] => true
       | (k1, u) :: l1', (k2, v) :: l2' => text_eqb k1 k2 && xval_eqb u v && go l1' l2'
       | _, _ => false
       end) x y
  | XOpaque, XOpaque => true
  | XBadObj c1, XBadObj c2 => text_eqb (qname c1) (qname c2)
  | _, _ => false
  end.

Fixpoint text_leb (a b : text) : bool :=
  match a, b with
  | [], _ => true
  | _ :: _, [] => false
  | x :: a', y :: b' => if N.ltb x y then true else if N.ltb y x then false else text_leb a' b'
  end.
Fixpoint insert_attr (kv : text * xval) (l : list (text * xval)) : list (text * xval) :=
  match l with
  | [] => [kv]
  | kv' :: l' => if text_leb (fst kv) (fst kv') then kv :: l else kv' :: insert_attr kv l'
  end.
Definition sort_attrs (l : list (text * xval)) : list (text * xval) := fold_right insert_attr [] l.
Definition attrs_eqb (a b : list (text * xval)) : bool :=
  xval_eqb (XDict (sort_attrs a)) (XDict (sort_attrs b)).

Definition outcome_eqb (a b : outcome) : bool :=
  match a, b with
  | ORaised q1 a1 t1, ORaised q2 a2 t2 => text_eqb q1 q2 && xval_eqb (XList a1) (XList a2) && attrs_eqb t1 t2
  | OFallback c1 o1 b1, OFallback c2 o2 b2 => text_eqb c1 c2 && text_eqb o1 o2 && Bool.eqb b1 b2
  | OSerErr c1, OSerErr c2 | OClientErr c1, OClientErr c2 | OLocalErr c1, OLocalErr c2 => text_eqb c1 c2
  | OConnLost, OConnLost | OHang, OHang | OReturned, OReturned => true
  | _, _ => false
  end.

(* the traceback text varies with paths and line numbers: both sides reduce it to a token naming the entry
   point (function) of the call that failed; the model is given the token of the CURRENT call [cs_tb],
   whatever traceback a previous call left on the server's exception object (in e_attrs) *)

Record case := {
  cs_quirks : quirks; cs_ser : ser; cs_kind : kind; cs_exc : exc; cs_tb : xval;
  (* observed *)
  cs_before : nat; cs_out : outcome; cs_server_open : bool; cs_client_conn : bool; cs_next_ok : bool }.

Definition model_run (c : case) : result :=
  run (cs_quirks c) gen_tables gen_facts std_codec (std_serr gen_tables) std_ctor (cs_ser c) (cs_kind c) (cs_exc c) (cs_tb c).

(* a class the harness says is whitelisted must carry the MRO the generated table has *)
Definition class_consistent (ci : cinfo) : bool :=
  match find (fun c => text_eqb (qname c) (qname ci)) exc_table with
  | Some c => list_eqb text_eqb (c_mro c) (c_mro ci)
  | None => true
  end.

Definition check_case (c : case) : bool :=
  let r := model_run c in
  class_consistent (e_cls (cs_exc c)) &&
  Nat.eqb (r_before r) (cs_before c) && outcome_eqb (r_out r) (cs_out c) &&
  Bool.eqb (server_open (r_conn r)) (cs_server_open c) &&
  Bool.eqb (client_conn (r_conn r)) (cs_client_conn c) &&
  Bool.eqb (usable (r_conn r)) (cs_next_ok c).
