(* C08 correspondence: run the HandshakeGate model (instantiated with the facts generated
   from the source, Gen/GenHandshake.v) on a case and compare with what the real daemon did
   on real sockets, as recorded by tools/harness/C08.py.

   A case = server type, the quirk variant the code currently shows, and a list of
   *segments*: "connection c sends these messages in one TCP write"; for each segment the
   harness recorded the replies the peer read (in order), the executions logged by the
   registered objects — the application object and the daemon's own Pyro.Daemon object —
   (connection, target, token), and how the segment ended for the peer (still served / closed
   by the server / neither answered nor closed).  A segment may end with the peer going away
   (EOF or a message cut short, then disconnect) or staying silent beyond COMMTIMEOUT, and a
   connection may have been denied by a full thread pool. *)
From Coq Require Import List NArith Arith Bool.
Import ListNotations.
From V Require Import Model.HandshakeGate Gen.GenHandshake Gen.GenProtocol Harness.Cmp.

Definition gen_cfg (q1 q2 q3 : bool) : cfg :=
  {| c_connect := t_connect; c_invoke := t_invoke; c_ping := t_ping;
     c_first_types := hs_first_types; c_later_types := req_types;
     c_gate := fun s => match s with Thread => thread_gate | Multiplex => mux_gate end;
     c_ok_only := hs_ok_only; c_marshal := marshal_id; c_client_uses_reply_ser := client_uses_reply_ser;
     q_silent_unknown_ser := q1; q_silent_validator_cce := q2; q_abort_unanswered := q3 |}.

(* a reply as the peer sees it: wire type, exception flag, sequence number, serializer id,
   and for CONNECTFAIL the class of the reason text *)
Record oreply := { or_type : N; or_exc : bool; or_seq : N; or_ser : N; or_rsn : option reason }.

(* which reasons are told apart when the model is compared with the daemon: the validator's own words and the transport's
   refusal text must be carried literally; "unknown object" versus any other wording the daemon chooses for a CONNECT it
   cannot serve is incidental (the property asks for a reason, not for a particular sentence) *)
Definition reason_eqb (a b : reason) : bool :=
  match a, b with
  | RsnValidator, RsnValidator | RsnDenied, RsnDenied => true
  | (RsnUnknownObject | RsnOther), (RsnUnknownObject | RsnOther) => true
  | _, _ => false
  end.

Definition oreply_eqb (a b : oreply) : bool :=
  (or_type a =? or_type b)%N && Bool.eqb (or_exc a) (or_exc b) && (or_seq a =? or_seq b)%N &&
  (or_ser a =? or_ser b)%N && option_eqb reason_eqb (or_rsn a) (or_rsn b).

Definition canon (k : rkind) (s i : N) : oreply :=
  match k with
  | RConnectOk => {| or_type := msg_connectok; or_exc := false; or_seq := s; or_ser := i; or_rsn := None |}
  | RConnectFail r => {| or_type := msg_connectfail; or_exc := false; or_seq := s; or_ser := i; or_rsn := Some r |}
  | RPong => {| or_type := msg_ping; or_exc := false; or_seq := s; or_ser := i; or_rsn := None |}
  | RResult => {| or_type := msg_result; or_exc := false; or_seq := s; or_ser := i; or_rsn := None |}
  | RError => {| or_type := msg_result; or_exc := true; or_seq := s; or_ser := i; or_rsn := None |}
  end.

(* how a segment ended for the peer: the connection still answers the sync ping / the server closed it /
   the server neither answers nor closes *)
Inductive endst := EndOpen | EndClosed | EndSilent.
Definition endst_eqb (a b : endst) : bool :=
  match a, b with EndOpen, EndOpen | EndClosed, EndClosed | EndSilent, EndSilent => true | _, _ => false end.

(* an execution as logged: connection, on the daemon's own object?, token *)
Definition oexec := (nat * bool * N)%type.

Record seg := { s_conn : nat; s_denied : bool; s_ins : list input;
                s_replies : list oreply; s_execs : list oexec; s_end : endst }.

(* a case interleaves segments with what the application does to the registry (register / unregister by id /
   unregister by object / collection of a weakly registered object) *)
Inductive item := ISeg (s : seg) | IApp (a : appev).

(* k_reg0: the ids (besides the daemon's own) registered when the case starts *)
Record case := { k_sty : servertype; k_q1 : bool; k_q2 : bool; k_q3 : bool; k_reg0 : list N; k_items : list item }.

(* run the inputs of one segment; collect all outputs *)
Fixpoint run_seg (g : cfg) (sty : servertype) (st : state) (c : nat) (d : bool) (ms : list input) : state * list out :=
  match ms with
  | [] => (st, [])
  | m :: r =>
      let '(st1, o1) := step g sty st (EvConn {| e_conn := c; e_in := m; e_denied := d |}) in
      let '(st2, o2) := run_seg g sty st1 c d r in
      (st2, o1 ++ o2)
  end.

Fixpoint replies_of (c : nat) (os : list out) : list oreply :=
  match os with
  | [] => []
  | Reply c' k s i :: r => if Nat.eqb c' c then canon k s i :: replies_of c r else replies_of c r
  | _ :: r => replies_of c r
  end.
(* replies addressed to another connection than the sender never occur in the model; count them so that
   the comparison fails if they did *)
Fixpoint foreign_replies (c : nat) (os : list out) : nat :=
  match os with
  | [] => 0
  | Reply c' _ _ _ :: r => (if Nat.eqb c' c then 0 else 1) + foreign_replies c r
  | _ :: r => foreign_replies c r
  end.
Definition is_daemon (t : target) : bool := match t with TDaemon => true | TUser => false end.
Fixpoint execs_of (os : list out) : list oexec :=
  match os with
  | [] => []
  | Exec c t tok :: r => (c, is_daemon t, tok) :: execs_of r
  | _ :: r => execs_of r
  end.

Definition end_of (s : cstate) : endst :=
  match s with Closed => EndClosed | Abandoned => EndSilent | _ => EndOpen end.

Definition exec_eqb (a b : oexec) : bool :=
  Nat.eqb (fst (fst a)) (fst (fst b)) && Bool.eqb (snd (fst a)) (snd (fst b)) && (snd a =? snd b)%N.
Definition subset_execs (a b : list oexec) : bool := forallb (fun x => existsb (exec_eqb x) b) a.
(* oneway calls run in their own threads: the log order inside one segment is not fixed *)
Definition same_execs (a b : list oexec) : bool :=
  Nat.eqb (length a) (length b) && subset_execs a b && subset_execs b a.

Definition model_seg (g : cfg) (sty : servertype) (st : state) (s : seg)
  : state * (list oreply * list oexec * endst) :=
  let '(st', os) := run_seg g sty st (s_conn s) (s_denied s) (s_ins s) in
  (st', (replies_of (s_conn s) os, execs_of os, end_of (s_conns st' (s_conn s)))).

Definition check_seg (g : cfg) (sty : servertype) (st : state) (s : seg) : state * bool :=
  let '(st', os) := run_seg g sty st (s_conn s) (s_denied s) (s_ins s) in
  (st', list_eqb oreply_eqb (replies_of (s_conn s) os) (s_replies s) &&
        Nat.eqb (foreign_replies (s_conn s) os) 0 &&
        same_execs (execs_of os) (s_execs s) &&
        endst_eqb (end_of (s_conns st' (s_conn s))) (s_end s)).

Fixpoint check_items (g : cfg) (sty : servertype) (st : state) (l : list item) : bool :=
  match l with
  | [] => true
  | ISeg s :: r => let '(st', ok) := check_seg g sty st s in ok && check_items g sty st' r
  | IApp a :: r => check_items g sty (fst (step g sty st (EvApp a))) r
  end.

Definition start_state (g : cfg) (sty : servertype) (reg0 : list N) : state :=
  final g sty init_state (map (fun n => EvApp (Register n)) reg0).

Definition check_case (k : case) : bool :=
  let g := gen_cfg (k_q1 k) (k_q2 k) (k_q3 k) in
  check_items g (k_sty k) (start_state g (k_sty k) (k_reg0 k)) (k_items k).

(* diagnostics: what the model says for every segment *)
Fixpoint model_items (g : cfg) (sty : servertype) (st : state) (l : list item)
  : list (list oreply * list oexec * endst) :=
  match l with
  | [] => []
  | ISeg s :: r => let '(st', o) := model_seg g sty st s in o :: model_items g sty st' r
  | IApp a :: r => model_items g sty (fst (step g sty st (EvApp a))) r
  end.
Definition model_case (k : case) :=
  let g := gen_cfg (k_q1 k) (k_q2 k) (k_q3 k) in
  model_items g (k_sty k) (start_state g (k_sty k) (k_reg0 k)) (k_items k).

(* ---- the proxy's side: a real Proxy configured with serializer [cc_client_ser] connects to a scripted peer that
   answers its CONNECT with [cc_answer] = (wire type, serializer id of the answer, class of the reason text), or
   closes without answering; [cc_obs] is what the Proxy made of it *)
Record ccase := { cc_q : bool * bool * bool; cc_client_ser : N; cc_answer : option (N * N * option reason);
                  cc_obs : client_outcome }.

Definition kind_of_wire (ty : N) (r : option reason) : rkind :=
  if (ty =? msg_connectok)%N then RConnectOk
  else if (ty =? msg_connectfail)%N then RConnectFail (match r with Some x => x | None => RsnOther end)
  else if (ty =? msg_ping)%N then RPong else RResult.

Definition client_outcome_eqb (a b : client_outcome) : bool :=
  match a, b with
  | CConnected, CConnected | CNoAnswer, CNoAnswer | CGarbled, CGarbled | CProtocol, CProtocol => true
  | CRejected x, CRejected y => reason_eqb x y
  | _, _ => false
  end.

Definition model_ccase (k : ccase) : client_outcome :=
  let '(q1, q2, q3) := cc_q k in
  client_reads (gen_cfg q1 q2 q3) (cc_client_ser k)
    (match cc_answer k with Some (ty, i, r) => Some (kind_of_wire ty r, 0%N, i) | None => None end).

Definition check_ccase (k : ccase) : bool := client_outcome_eqb (model_ccase k) (cc_obs k).
