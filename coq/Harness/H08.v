(* C08 correspondence: run the HandshakeGate model (instantiated with the facts generated
   from the source, Gen/GenHandshake.v) on a case and compare with what the real daemon did
   on real sockets, as recorded by tools/harness/C08.py.

   A case = server type, the quirk variant the code currently shows, and a list of
   *segments*: "connection c sends these messages in one TCP write"; for each segment the
   harness recorded the replies the peer read (in order), the executions logged by the
   registered object (connection, token), and whether the server had closed the
   connection afterwards. *)
From Coq Require Import List NArith Arith Bool.
Import ListNotations.
From V Require Import Model.HandshakeGate Gen.GenHandshake Gen.GenProtocol Harness.Cmp.

Definition gen_cfg (q1 q2 : bool) : cfg :=
  {| c_connect := t_connect; c_invoke := t_invoke; c_ping := t_ping;
     c_first_types := hs_first_types; c_later_types := req_types;
     c_gate := fun s => match s with Thread => thread_gate | Multiplex => mux_gate end;
     c_ok_only := hs_ok_only; c_marshal := marshal_id;
     q_silent_unknown_ser := q1; q_silent_validator_cce := q2 |}.

(* a reply as the peer sees it: wire type, exception flag, sequence number, serializer id,
   and for CONNECTFAIL the class of the reason text *)
Record oreply := { or_type : N; or_exc : bool; or_seq : N; or_ser : N; or_rsn : option reason }.

Definition reason_eqb (a b : reason) : bool :=
  match a, b with
  | RsnValidator, RsnValidator | RsnUnknownObject, RsnUnknownObject | RsnOther, RsnOther => true
  | _, _ => false
  end.

Definition oreply_eqb (a b : oreply) : bool :=
  (or_type a =? or_type b)%N && Bool.eqb (or_exc a) (or_exc b) && (or_seq a =? or_seq b)%N &&
  (or_ser a =? or_ser b)%N && option_eqb reason_eqb (or_rsn a) (or_rsn b).

Definition canon (k : rkind) (s i : N) : oreply :=
  match k with
  | RConnectOk => {| or_type := msg_connectok; or_exc := false; or_seq := s; or_ser := i; or_rsn := None |}
  | RConnectFail r => {| or_type := msg_connectfail; or_exc := false; or_seq := s; or_ser := i; or_rsn := Some r |}
  | RPong => {| or_type := msg_ping; or_exc := false; or_seq := s; or_ser := i; or_rsn := None |}
  | RResult => {| or_type := msg_result; or_exc := false; or_seq := s; or_ser := i; or_rsn := None |}
  | RError => {| or_type := msg_result; or_exc := true; or_seq := s; or_ser := i; or_rsn := None |}
  end.

Record seg := { s_conn : nat; s_msgs : list msg;
                s_replies : list oreply; s_execs : list (nat * N); s_closed : bool }.

Record case := { k_sty : servertype; k_q1 : bool; k_q2 : bool; k_segs : list seg }.

(* run the messages of one segment; collect all outputs *)
Fixpoint run_seg (g : cfg) (sty : servertype) (st : conns) (c : nat) (ms : list msg) : conns * list out :=
  match ms with
  | [] => (st, [])
  | m :: r =>
      let '(st1, o1) := step g sty st {| e_conn := c; e_msg := m |} in
      let '(st2, o2) := run_seg g sty st1 c r in
      (st2, o1 ++ o2)
  end.

Fixpoint replies_of (c : nat) (os : list out) : list oreply :=
  match os with
  | [] => []
  | Reply c' k s i :: r => if Nat.eqb c' c then canon k s i :: replies_of c r else replies_of c r
  | _ :: r => replies_of c r
  end.
(* replies addressed to another connection than the sender never occur in the model; count them so that
   the comparison fails if they did *)
Fixpoint foreign_replies (c : nat) (os : list out) : nat :=
  match os with
  | [] => 0
  | Reply c' _ _ _ :: r => (if Nat.eqb c' c then 0 else 1) + foreign_replies c r
  | _ :: r => foreign_replies c r
  end.
Fixpoint execs_of (os : list out) : list (nat * N) :=
  match os with
  | [] => []
  | Exec c t :: r => (c, t) :: execs_of r
  | _ :: r => execs_of r
  end.

Definition is_closed (s : cstate) : bool := match s with Closed => true | _ => false end.

Definition exec_eqb (a b : nat * N) : bool := Nat.eqb (fst a) (fst b) && (snd a =? snd b)%N.
Definition subset_execs (a b : list (nat * N)) : bool := forallb (fun x => existsb (exec_eqb x) b) a.
(* oneway calls run in their own threads: the log order inside one segment is not fixed *)
Definition same_execs (a b : list (nat * N)) : bool :=
  Nat.eqb (length a) (length b) && subset_execs a b && subset_execs b a.

Definition model_seg (g : cfg) (sty : servertype) (st : conns) (s : seg)
  : conns * (list oreply * list (nat * N) * bool) :=
  let '(st', os) := run_seg g sty st (s_conn s) (s_msgs s) in
  (st', (replies_of (s_conn s) os, execs_of os, is_closed (st' (s_conn s)))).

Definition check_seg (g : cfg) (sty : servertype) (st : conns) (s : seg) : conns * bool :=
  let '(st', os) := run_seg g sty st (s_conn s) (s_msgs s) in
  (st', list_eqb oreply_eqb (replies_of (s_conn s) os) (s_replies s) &&
        Nat.eqb (foreign_replies (s_conn s) os) 0 &&
        same_execs (execs_of os) (s_execs s) &&
        Bool.eqb (is_closed (st' (s_conn s))) (s_closed s)).

Fixpoint check_segs (g : cfg) (sty : servertype) (st : conns) (l : list seg) : bool :=
  match l with
  | [] => true
  | s :: r => let '(st', ok) := check_seg g sty st s in ok && check_segs g sty st' r
  end.

Definition check_case (k : case) : bool :=
  check_segs (gen_cfg (k_q1 k) (k_q2 k)) (k_sty k) init (k_segs k).

(* diagnostics: what the model says for every segment *)
Fixpoint model_segs (g : cfg) (sty : servertype) (st : conns) (l : list seg)
  : list (list oreply * list (nat * N) * bool) :=
  match l with
  | [] => []
  | s :: r => let '(st', o) := model_seg g sty st s in o :: model_segs g sty st' r
  end.
Definition model_case (k : case) := model_segs (gen_cfg (k_q1 k) (k_q2 k)) (k_sty k) init (k_segs k).
