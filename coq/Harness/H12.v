(* C12 correspondence: run Model/CallCtx.v, with the shape generated from the source, on the
   event list of a recorded history and compare with what the implementation sent / what the
   methods saw (tools/harness/C12.py). *)
From Coq Require Import List NArith Arith Bool.
Import ListNotations.
From V Require Import Model.CallCtx Gen.GenCallCtx Harness.Cmp.

(* the structure of the implementation as read from the source on this run *)
Definition gen_shape : shape :=
  mkshape ctx_thread_local hr_reset_pos hs_reset_pos hr_reset_after_reply annotations_inplace
          hr_setup_fields oneway_fields.
Definition gen_client_reset : bool := client_reset_at_invoke.

(* request fields given positionally: client, peer address, seq, flags, serializer, annotations, correlation id *)
Definition mkreq (l : list N) : req := fun f => nth (N.to_nat (field_id f)) l 0%N.
Definition req_list (r : req) : list N := map r all_fields.

Inductive jout :=
| JReply (c : N) (k : rkind) (anns : list N)
| JCtx (t : nat) (tok : N) (snap : list N)
| JMissing                      (* an expected reply / snapshot was not observed *)
| JExtra.                       (* something was observed that no event accounts for *)

Definition subset (a b : list N) : bool := forallb (fun x => mem x b) a.
Definition set_eqb (a b : list N) : bool := subset a b && subset b a.
Definition rkind_id (k : rkind) : N :=
  match k with KConnOk => 0 | KConnFail => 1 | KPing => 2 | KResult => 3 | KBatch => 4 | KError => 5 end%N.

Definition out_eqb (o : output) (j : jout) : bool :=
  match o, j with
  | OReply c k a, JReply c' k' a' => (c =? c')%N && (rkind_id k =? rkind_id k')%N && set_eqb a a'
  | OCtx t tok s, JCtx t' tok' l => Nat.eqb t t' && (tok =? tok')%N && list_eqb N.eqb (req_list s) l
  | _, _ => false
  end.
Fixpoint outs_eqb (a : list output) (b : list jout) : bool :=
  match a, b with
  | [], [] => true
  | x :: a', y :: b' => out_eqb x y && outs_eqb a' b'
  | _, _ => false
  end.

Record scase := { k_dmn : list N; k_events : list event; k_obs : list jout }.
Definition model_server (c : scase) : list jout :=
  map (fun o => match o with OReply c k a => JReply c k a | OCtx t tok s => JCtx t tok (req_list s) end)
      (trace gen_shape (k_dmn c) (k_events c)).
Definition check_server (c : scase) : bool := outs_eqb (trace gen_shape (k_dmn c) (k_events c)) (k_obs c).

(* client half: what current_context.response_annotations holds after each proxy operation *)
Record ccase := { c_events : list cevent; c_obs : list (list N) }.
Definition model_client (c : ccase) : list (list N) := crun gen_client_reset [] (c_events c).
Definition check_client (c : ccase) : bool := list_eqb set_eqb (model_client c) (c_obs c).

Inductive case := SC (c : scase) | CC (c : ccase).
Definition check_case (c : case) : bool :=
  match c with SC s => check_server s | CC s => check_client s end.
