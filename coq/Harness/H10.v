(* C10 correspondence: run the client/server stream model on a case and compare with what the
   real Proxy / _StreamResultIterator / Daemon did (recorded by tools/harness/C10.py):
   the answer to every client operation, the daemon's stream table after every operation
   (stream ordinal, owning connection, creation stamp, linger stamp), and the table size after
   the final quiescence sequence. *)
From Coq Require Import List NArith Bool.
Import ListNotations.
From V Require Import Model.Streams Gen.GenStreams Harness.Cmp.
Local Open Scope N_scope.

Definition t0 : N := 1000.

Definition default_config : config :=
  {| streaming := default_streaming; lifetime := default_lifetime; linger := default_linger;
     lifetime_strict := gen_lifetime_strict; linger_strict := gen_linger_strict |}.

(* which answers make _StreamResultIterator.__next__ drop its proxy: generated from its except-clauses *)
Definition gen_policy : cpolicy :=
  {| drop_stop := gen_drop_stop; drop_raised := gen_drop_raised; drop_error := gen_drop_error; drop_comm := gen_drop_comm |}.

Definition row := (sid * (option conn * (N * N)))%type.
Definition snapshot (st : state) : list row :=
  map (fun kv => (fst kv, (owner (snd kv), (created (snd kv), linger_since (snd kv))))) (tbl st).

(* a harness operation: a client operation, or the release of proxy p with another daemon thread's action
   (close_stream / housekeeping, given as the server event it performs) interleaved into the daemon's
   disconnect handling; [win] says where it got in (the entry whose re-read was done and whose write-back was not,
   as observed by the harness).  By Props/C10.v (C10_disconnect_is_visits, C10_racing_disconnect_outcome) an
   interleaving between loop iterations ends in the table of: the other action, then the disconnect; inside an
   entry's own window the removed entry is written back (C10_closed_reinserted_in_reread_window_refuted). *)
Inductive hop := HOp (o : cop) | HRace (p : N) (ev : event) (win : option sid).

Definition hstep (cfg : config) (cs : cstate) (o : hop) : cstate * cresp :=
  match o with
  | HOp op => let '(cs1, r, _) := cstep gen_policy cfg cs op in (cs1, r)
  | HRace p ev win =>
      match nthN (proxies cs) p with
      | None => (cs, CNone)
      | Some px =>
          match p_conn px with
          | None => (cs, CNone)       (* not connected: no disconnect handling runs, nothing to interleave with *)
          | Some c =>
              let '(cs1, _) := srv_step cfg cs ev in
              let '(cs2, r, _) := cstep gen_policy cfg cs1 (CRelease p) in
              (* win = Some x: the other thread got in between the loop's re-read of entry x and its write-back
                 (micro-steps M2Read c x; removal; M2Write c x): if it removed x, the write-back puts x back *)
              match win with
              | None => (cs2, r)
              | Some x =>
                  match lookup x (tbl (srv cs)), lookup x (tbl (srv cs1)) with
                  | Some s, None =>
                      if owned_by c s && (0 <? linger cfg)
                      then (with_srv cs2 (set_tbl (srv cs2) (upsert x (disconnect_stream cfg (now (srv cs)) c s) (tbl (srv cs2)))), r)
                      else (cs2, r)
                  | _, _ => (cs2, r)
                  end
              end
          end
      end
  end.

Record case := { k_cfg : config; k_nprox : N; k_ops : list hop;
                 k_obs : list (cresp * list row); k_final : N }.

Definition cresp_eqb (a b : cresp) : bool :=
  match a, b with
  | COpened x, COpened y | CItem x, CItem y | CRaised x, CRaised y => x =? y
  | CNoStreaming, CNoStreaming | CStop, CStop | CError, CError | CClosedLocal, CClosedLocal | CNone, CNone => true
  | CCommErr _, CCommErr _ => true      (* the lost answer is a ghost of the model, invisible to the client *)
  | _, _ => false
  end.
Definition row_eqb (a b : row) : bool :=
  (fst a =? fst b) && option_eqb N.eqb (fst (snd a)) (fst (snd b))
  && (fst (snd (snd a)) =? fst (snd (snd b))) && (snd (snd (snd a)) =? snd (snd (snd b))).

Fixpoint model_steps (cfg : config) (cs : cstate) (ops : list hop) : cstate * list (cresp * list row) :=
  match ops with
  | [] => (cs, [])
  | op :: ops' =>
      let '(cs1, r) := hstep cfg cs op in
      let '(cs2, out) := model_steps cfg cs1 ops' in
      (cs2, (r, snapshot (srv cs1)) :: out)
  end.

Definition model_case (c : case) : list (cresp * list row) * N :=
  let '(cs, out) := model_steps (k_cfg c) (cinit t0 (k_nprox c)) (k_ops c) in
  let '(st, _) := run (k_cfg c) (srv cs) (quiesce (live_conns cs) (linger (k_cfg c) + 1)) in
  (out, N.of_nat (length (tbl st))).

Definition check_case (c : case) : bool :=
  let '(out, fin) := model_case c in
  list_eqb (pair_eqb cresp_eqb (list_eqb row_eqb)) out (k_obs c) && (fin =? k_final c).
