(* C15 correspondence: the same schedule run on the model and on the real NameServer
   (memory back-end) under the cooperative scheduler of tools/lib/coop.py *)
From Coq Require Import List NArith Arith Bool.
Import ListNotations.
From V Require Import Model.Bytes Model.Atomic Model.NsAtomic Gen.GenLocks Harness.Cmp.

Definition kv_eqb (a b : name * val) : bool := name_eqb (fst a) (fst b) && N.eqb (snd a) (snd b).
Definition res_eqb (a b : res) : bool :=
  match a, b with
  | ROk, ROk | RNamingError, RNamingError | RInternalError, RInternalError => true
  | RCount x, RCount y => Nat.eqb x y
  | RVal x, RVal y => N.eqb x y
  | RList x, RList y => list_eqb kv_eqb x y
  | _, _ => false
  end.

Record case := { c_store : store; c_progs : list (list nsop); c_sched : list nat;
                 c_final : store; c_results : list (list res); c_done : list bool }.

Definition final (c : case) : config store regs :=
  run (c_sched c) (init (compile ns_name) (c_store c) (c_progs c)).

Definition thread_done (th : thread store regs) : bool :=
  match cur th, todo th with None, [] => true | _, _ => false end.

Definition model_case (c : case) : store * list (list res) * list bool :=
  let f := final c in
  let idx := seq 0 (length (c_progs c)) in
  (shared f, map (fun i => r_results (tregs (threads f i))) idx, map (fun i => thread_done (threads f i)) idx).

Definition check_case (c : case) : bool :=
  let '(s, rs, ds) := model_case c in
  list_eqb kv_eqb s (c_final c) && list_eqb (list_eqb res_eqb) rs (c_results c) && list_eqb Bool.eqb ds (c_done c).

(* Operation-granular comparison, used for a case whose step-by-step comparison fails although every storage access of
   the run happened while its thread held the lock and every operation took the lock exactly once: the code's pattern
   of storage accesses then differs from the pinned one (one snapshot instead of one read per name, say), which the
   property does not speak about.  The run is compared with the atomic semantics (Atomic.astep, the right-hand side of
   locked_ops_atomic) executed in the observed order of lock acquisitions. *)
Record acase := { a_case : case; a_order : list nat }.
Definition model_case_atomic (ac : acase) : store * list (list res) * list bool :=
  let c := a_case ac in
  let f := fold_left (fun cf t => astep t cf) (a_order ac) (init (compile ns_name) (c_store c) (c_progs c)) in
  let idx := seq 0 (length (c_progs c)) in
  (shared f, map (fun i => r_results (tregs (threads f i))) idx, map (fun i => thread_done (threads f i)) idx).
Definition check_case_atomic (ac : acase) : bool :=
  let c := a_case ac in
  let '(s, rs, ds) := model_case_atomic ac in
  list_eqb kv_eqb s (c_final c) && list_eqb (list_eqb res_eqb) rs (c_results c) && list_eqb Bool.eqb ds (c_done c).
