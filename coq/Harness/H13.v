(* C13 correspondence: run the Cleanup model on an event script, step by step, and compare with what the
   real daemon did (as recorded by tools/harness/C13.py through tools/lib/c13impl.py). *)
From Coq Require Import List Arith Bool.
Import ListNotations.
From V Require Import Model.Cleanup Gen.GenCleanup Harness.Cmp.

Fixpoint insert (x : nat) (l : list nat) : list nat :=
  match l with [] => [x] | y :: t => if x <=? y then x :: l else y :: insert x t end.
Definition sort (l : list nat) : list nat := fold_right insert [] l.

Record snap := { sn_c : nat; sn_open : bool; sn_tracked : list nat; sn_inst : bool }.
(* what was observed after one event (lists sorted) *)
Record stepobs := { so_hooks : list nat; so_closes : list nat; so_sockclosed : list nat; so_slots : nat;
                    so_conns : list snap; so_accepted : option bool; so_reply : nat }.
Record case := { k_thread : bool; k_pool : nat; k_hookfail : list nat (* connections whose user hook raises *);
                 k_events : list event; k_obs : list stepobs }.

(* the thread-pool server with [pool] workers / the multiplex server, run by a Daemon subclass whose clientDisconnect
   hook raises exactly for the connections selected by [hk] *)
Definition cfg (thread : bool) (pool : nat) (hk : conn -> bool) : config :=
  if thread then {| cf_shape := with_hooks thread_shape hk; cf_pool := Some pool |}
  else {| cf_shape := with_hooks mux_shape hk; cf_pool := None |}.
Definition hook_set (l : list nat) : conn -> bool := fun c => existsb (Nat.eqb c) l.

Definition hooks_of (o : list out) : list nat :=
  sort (flat_map (fun x => match x with DisconnectHook c => [c] | _ => [] end) o).
Definition closes_of (o : list out) : list nat :=
  sort (flat_map (fun x => match x with ResClose _ r => [r] | _ => [] end) o).
Definition sockclosed_of (o : list out) : list nat :=
  sort (flat_map (fun x => match x with SockClosed c => [c] | _ => [] end) o).
Definition snap_of (st : state) (c : conn) : snap :=
  let s := conns st c in
  {| sn_c := c; sn_open := c_open s; sn_tracked := sort (c_tracked s); sn_inst := c_inst s |}.

Definition model_obs (st st' : state) (ev : event) (o : list out) : stepobs :=
  {| so_hooks := hooks_of o; so_closes := closes_of o; so_sockclosed := sockclosed_of o; so_slots := slots st';
     so_conns := map (snap_of st') (sort (dom st'));
     so_accepted := match ev with Connect c _ => if known st c then None else Some (c_acc (conns st' c)) | _ => None end;
     so_reply := match ev with
                 | Req c _ _ => if active (conns st c) then 1 else 0
                 | Raise c _ _ => if active (conns st c) then 2 else 0
                 | _ => 0 end |}.

Fixpoint model_steps (cf : config) (st : state) (evs : list event) : list stepobs :=
  match evs with
  | [] => []
  | ev :: t => let (st', o) := step cf st ev in model_obs st st' ev o :: model_steps cf st' t
  end.
Definition model_case (k : case) : list stepobs := model_steps (cfg (k_thread k) (k_pool k) (hook_set (k_hookfail k))) init (k_events k).

Definition nats_eqb := list_eqb Nat.eqb.
Definition snap_eqb (a b : snap) : bool :=
  Nat.eqb (sn_c a) (sn_c b) && Bool.eqb (sn_open a) (sn_open b) && nats_eqb (sn_tracked a) (sn_tracked b) &&
  Bool.eqb (sn_inst a) (sn_inst b).
Definition stepobs_eqb (a b : stepobs) : bool :=
  nats_eqb (so_hooks a) (so_hooks b) && nats_eqb (so_closes a) (so_closes b) &&
  nats_eqb (so_sockclosed a) (so_sockclosed b) && Nat.eqb (so_slots a) (so_slots b) &&
  list_eqb snap_eqb (so_conns a) (so_conns b) && option_eqb Bool.eqb (so_accepted a) (so_accepted b) &&
  Nat.eqb (so_reply a) (so_reply b).
Definition check_case (k : case) : bool := list_eqb stepobs_eqb (model_case k) (k_obs k).

(* index of the first step at which model and implementation differ (diagnostics) *)
Fixpoint first_diff (a b : list stepobs) (i : nat) : option nat :=
  match a, b with
  | [], [] => None
  | x :: a', y :: b' => if stepobs_eqb x y then first_diff a' b' (S i) else Some i
  | _, _ => Some i
  end.
Definition model_diff (k : case) : option nat := first_diff (model_case k) (k_obs k) 0.
