(* C16 correspondence: run the Registry model on a recorded history (with the quirk
   variant the tree was probed to have) and compare with what the implementation answered
   at every step (as recorded by tools/harness/C16.py). *)
From Coq Require Import List Arith Bool.
Import ListNotations.
From V Require Import Model.Registry Harness.Cmp.

Record case := mk_case { c_q : quirks; c_events : list event; c_obs : list result }.

Definition otarget_eqb := option_eqb target_eqb.
(* which exception class a refusal uses (TypeError / ValueError / DaemonError) is incidental to the property:
   the three count as the same outcome "refused"; an AttributeError out of unregister and "the daemon does not
   know this id" stay distinct outcomes *)
Definition err_group (e : err) : nat :=
  match e with ETypeError | EValueError | EDaemonError => 0 | EAttributeError => 1 | EUnknownObject => 2 end.
Definition err_eqb (a b : err) : bool := Nat.eqb (err_group a) (err_group b).
Definition subset (a b : list ident) : bool := forallb (fun x => existsb (ident_eqb x) b) a.
(* registered() is compared as a set of the same size (dict order is not part of the property) *)
Definition ids_eqb (a b : list ident) : bool := subset a b && subset b a && Nat.eqb (length a) (length b).

Definition result_eqb (a b : result) : bool :=
  match a, b with
  | ROk, ROk | RValue, RValue => true
  | RUri i, RUri j => ident_eqb i j
  | RReached x, RReached y => otarget_eqb x y
  | RProxy i x, RProxy j y => ident_eqb i j && otarget_eqb x y
  | RIds x, RIds y => ids_eqb x y
  | RGc x, RGc y => Bool.eqb x y
  | RErr x, RErr y => err_eqb x y
  | _, _ => false
  end.

Definition model_results (c : case) : list result := results (c_q c) (c_events c).
Definition check_case (c : case) : bool := list_eqb result_eqb (model_results c) (c_obs c).
