(* C11 correspondence: run Model/Batch.v (accumulator instance) on a case and compare with
   what the real Proxy/BatchProxy/Daemon did (recorded by tools/harness/C11.py). *)
From Coq Require Import List ZArith Bool.
Import ListNotations.
From V Require Import Model.Batch Gen.GenBatch Harness.Cmp.
Local Open Scope Z_scope.

Definition meth_code (m : meth) : Z :=
  match m with MAdd => 0 | MMul => 1 | MGet => 2 | MSub => 3 | MDiv => 4 | MBoom => 5
             | MHidden => 6 | MSecret => 7 | MDunder => 8 | MNoSuch => 9 | MDotted => 10 end.
Definition acall_eqb (a b : acall) : bool :=
  (meth_code (c_meth a) =? meth_code (c_meth b)) && (c_arg a =? c_arg b).
Definition why_eqb (a b : why) : bool :=
  match a, b with WPrivate, WPrivate | WUnexposed, WUnexposed | WMissing, WMissing => true | _, _ => false end.
Definition aexn_eqb (a b : aexn) : bool :=
  match a, b with
  | EValue t k, EValue t' k' => (t =? t') && (k =? k')
  | EZeroDiv, EZeroDiv => true
  | ERuntime t, ERuntime t' => t =? t'
  | EAttr w, EAttr w' => why_eqb w w'
  | ESubmit, ESubmit => true
  | _, _ => false
  end.
Definition out_eqb (a b : outcome Z aexn) : bool :=
  match a, b with
  | Ok v, Ok v' => v =? v'
  | Exc e, Exc e' => aexn_eqb e e'
  | _, _ => false
  end.
Definition view_eqb (a b : client_obs Z aexn) : bool :=
  match a, b with
  | CNothing, CNothing => true
  | CRaised e, CRaised e' => aexn_eqb e e'
  | CStream l, CStream l' => list_eqb out_eqb l l'
  | _, _ => false
  end.

(* one case: the input (mode, initial total, calls), which variant of the submission the
   implementation currently shows (probed by the harness), and the implementation's
   observations of the batch run and of the one-by-one run on an identical object *)
Record case := { k_oneway : bool; k_submit_broken : bool; k_s0 : Z; k_calls : list acall;
                 k_b_state : Z; k_b_log : list acall; k_b_view : client_obs Z aexn;
                 k_q_state : Z; k_q_log : list acall; k_q_outs : list (outcome Z aexn) }.

Definition model_batch (c : case) : batch_run Z acall Z aexn :=
  if k_submit_broken c then run_batch_submit_fails ESubmit (k_calls c) (k_s0 c)
  else acc_batch loop_breaks (k_oneway c) (k_calls c) (k_s0 c).
Definition model_seq (c : case) : run Z acall Z aexn := acc_seq (k_calls c) (k_s0 c).

Definition check_case (c : case) : bool :=
  let b := model_batch c in
  let q := model_seq c in
  (b_state b =? k_b_state c) && list_eqb acall_eqb (b_log b) (k_b_log c) && view_eqb (b_obs b) (k_b_view c)
  && (r_state q =? k_q_state c) && list_eqb acall_eqb (r_log q) (k_q_log c) && list_eqb out_eqb (r_outs q) (k_q_outs c).
