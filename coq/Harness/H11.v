(* C11 correspondence: run Model/Batch.v (accumulator instance) on a case and compare with
   what the real Proxy/BatchProxy/Daemon did (recorded by tools/harness/C11.py). *)
From Coq Require Import List ZArith Bool.
Import ListNotations.
From V Require Import Model.Batch Gen.GenBatch Harness.Cmp.
Local Open Scope Z_scope.

Definition meth_code (m : meth) : Z :=
  match m with MAdd => 0 | MMul => 1 | MGet => 2 | MSub => 3 | MDiv => 4 | MBoom => 5
             | MHidden => 6 | MSecret => 7 | MDunder => 8 | MNoSuch => 9 | MDotted => 10
             | MLen => 11 | MGetItem => 12 | MGated => 13 | MDSecret => 14 | MDHidden => 15 | MDDel => 16 | MLastErr => 17 end.
Definition acall_eqb (a b : acall) : bool :=
  (meth_code (c_meth a) =? meth_code (c_meth b)) && (c_arg a =? c_arg b).
Definition why_eqb (a b : why) : bool :=
  match a, b with WPrivate, WPrivate | WUnexposed, WUnexposed | WMissing, WMissing => true | _, _ => false end.
Definition aexn_eqb (a b : aexn) : bool :=
  match a, b with
  | EValue t k, EValue t' k' => (t =? t') && (k =? k')
  | EZeroDiv, EZeroDiv => true
  | ERuntime t, ERuntime t' => t =? t'
  | EAttr w, EAttr w' => why_eqb w w'
  | ESubmit, ESubmit => true
  | _, _ => false
  end.
Definition out_eqb (a b : outcome aval aexn) : bool :=
  match a, b with
  | Ok (VInt v), Ok (VInt v') => v =? v'
  | Ok (VExc e), Ok (VExc e') => aexn_eqb e e'
  | Exc e, Exc e' => aexn_eqb e e'
  | _, _ => false
  end.
Definition view_eqb (a b : client_obs aval aexn) : bool :=
  match a, b with
  | CNothing, CNothing => true
  | CRaised e, CRaised e' => aexn_eqb e e'
  | CStream l, CStream l' => list_eqb out_eqb l l'
  | _, _ => false
  end.

(* one case: the input (mode, initial total, calls), which variant of the submission the
   implementation currently shows (probed by the harness), and the implementation's
   observations of the batch run and of the one-by-one run on an identical object *)
Record case1 := { k_oneway : bool; k_submit_broken : bool;
                  k_excval_breaks_reply : bool;   (* probed: this serializer cannot put a returned exception object into a batch reply *)
                  k_s0 : Z; k_calls : list acall;
                 k_b_state : Z; k_b_log : list acall; k_b_view : client_obs aval aexn;
                 k_q_state : Z; k_q_log : list acall; k_q_outs : list (outcome aval aexn) }.

(* open finding batch-returned-exception-unserializable (marshal): the calls run, but a result list holding an
   exception object as a VALUE cannot be serialised, so the request is answered with an error the model has no name for *)
Definition has_excval (l : list (outcome aval aexn)) : bool :=
  existsb (fun o => match o with Ok (VExc _) => true | _ => false end) l.
Definition quirk_view (q : bool) (o : client_obs aval aexn) : client_obs aval aexn :=
  match o with CStream l => if q && has_excval l then CRaised ESubmit else o | _ => o end.
Definition model_batch (c : case1) : batch_run Z acall aval aexn :=
  if k_submit_broken c then run_batch_submit_fails ESubmit (k_calls c) (k_s0 c)
  else let b := acc_batch loop_breaks (k_oneway c) (k_calls c) (k_s0 c) in
       {| b_state := b_state b; b_log := b_log b; b_obs := quirk_view (k_excval_breaks_reply c) (b_obs b) |}.
Definition model_seq (c : case1) : run Z acall aval aexn := acc_seq (k_calls c) (k_s0 c).

Definition check_one (c : case1) : bool :=
  let b := model_batch c in
  let q := model_seq c in
  (b_state b =? k_b_state c) && list_eqb acall_eqb (b_log b) (k_b_log c) && view_eqb (b_obs b) (k_b_view c)
  && (r_state q =? k_q_state c) && list_eqb acall_eqb (r_log q) (k_q_log c) && list_eqb out_eqb (r_outs q) (k_q_outs c).

(* ---- histories of a re-used BatchProxy ----
   per event the implementation's observation: nothing for a queued call; for a submission the
   object's total afterwards, the calls executed during it and what the submitting call did
   (returned nothing / raised e / returned a generator); for a pull the items obtained *)
Inductive skind := KNothing | KRaised (e : aexn) | KGen.
Inductive hobs := OQ | OQRaised   (* queueing the call raised on the client: never happens in the model *)
              | OS (st : Z) (log : list acall) (k : skind) | OI (outs : list (outcome aval aexn)).
Record hcase := { h_keep : bool;      (* probed: does the queue survive a submission that raised? *)
                  h_s0 : Z; h_events : list (event acall); h_obs : list hobs; h_final : Z }.

Definition kind_of (o : client_obs aval aexn) : skind :=
  match o with CNothing => KNothing | CRaised e => KRaised e | CStream _ => KGen end.
Definition skind_eqb (a b : skind) : bool :=
  match a, b with
  | KNothing, KNothing | KGen, KGen => true
  | KRaised e, KRaised e' => aexn_eqb e e'
  | _, _ => false
  end.
Definition hobs_eqb (m : hitem Z acall aval aexn) (o : hobs) : bool :=
  match m, o with
  | HQueued, OQ => true
  | HSub _ b, OS st log k => (b_state b =? st) && list_eqb acall_eqb (b_log b) log && skind_eqb (kind_of (b_obs b)) k
  | HIter outs, OI outs' => list_eqb out_eqb outs outs'
  | _, _ => false
  end.
Fixpoint trace_eqb (t : list (hitem Z acall aval aexn)) (o : list hobs) : bool :=
  match t, o with
  | [], [] => true
  | x :: t', y :: o' => hobs_eqb x y && trace_eqb t' o'
  | _, _ => false
  end.
Definition model_history (c : hcase) := acc_history loop_breaks (h_keep c) (h_events c) (h_s0 c) [] [].
Definition check_hist (c : hcase) : bool :=
  let '(t, s) := model_history c in
  trace_eqb t (h_obs c) && (s =? h_final c).

Inductive case := One (c : case1) | Hist (c : hcase).
Definition check_case (c : case) : bool :=
  match c with One c => check_one c | Hist c => check_hist c end.
