(* Shared helpers for the generated correspondence files (Cases/*.v). *)
From Coq Require Import List NArith Arith Bool.
Import ListNotations.

Fixpoint mismatches_from {A} (f : A -> bool) (i : nat) (l : list A) : list nat :=
  match l with
  | [] => []
  | x :: l' => if f x then mismatches_from f (S i) l' else i :: mismatches_from f (S i) l'
  end.
Definition mismatches {A} (f : A -> bool) (l : list A) : list nat := mismatches_from f 0 l.

Fixpoint list_eqb {A} (eqb : A -> A -> bool) (a b : list A) : bool :=
  match a, b with
  | [], [] => true
  | x :: a', y :: b' => eqb x y && list_eqb eqb a' b'
  | _, _ => false
  end.
Definition option_eqb {A} (eqb : A -> A -> bool) (a b : option A) : bool :=
  match a, b with
  | None, None => true
  | Some x, Some y => eqb x y
  | _, _ => false
  end.
Definition pair_eqb {A B} (ea : A -> A -> bool) (eb : B -> B -> bool) (a b : A * B) : bool :=
  ea (fst a) (fst b) && eb (snd a) (snd b).
