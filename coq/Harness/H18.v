(* C18 correspondence: the same schedule (thread, choice) run on Model/Pool.v and on the real
   Pool / Worker / SocketServer_Threadpool.events under tools/lib/coop_pool.py; the trace of
   primitives and the complete final state are compared.  The lock configuration of the model
   is the one regenerated from the source (Gen/GenPool.v). *)
From Coq Require Import List NArith Arith Bool.
Import ListNotations.
From V Require Import Model.Bytes Model.Pool Gen.GenPool Harness.Cmp.

Definition gen_locks : lockcfg :=
  mk_lockcfg pool_process_locked pool_notify_locked pool_close_notify_locked pool_close_swap_locked.

Record wobs := { o_slot : option nat; o_ev : bool; o_exit : bool; o_crash : bool }.
Record case := { c_size : nat; c_min : nat; c_njobs : nat; c_close : bool; c_sched : list (nat * nat);
                 c_trace : list nat; c_lock : option nat; c_idle : list nat; c_busy : list nat; c_closed : bool;
                 c_workers : list wobs; c_started : list nat; c_ended : list nat; c_refused : list nat;
                 c_poolclosed : list nat; c_main_done : bool; c_reasons : list (list N) }.

Definition cfg_of (c : case) : cfg := mk_cfg (c_size c) (c_min c) (c_njobs c) (c_close c) gen_locks.
Definition final (c : case) : st := run (cfg_of c) (c_sched c) (init (cfg_of c)).

Definition obs_of (w : worker) : wobs :=
  {| o_slot := w_slot w; o_ev := w_ev w; o_exit := match w_pc w with WExit => true | _ => false end; o_crash := w_crash w |}.
Definition optnat_eqb (a b : option nat) : bool :=
  match a, b with None, None => true | Some x, Some y => Nat.eqb x y | _, _ => false end.
Definition wobs_eqb (a b : wobs) : bool :=
  optnat_eqb (o_slot a) (o_slot b) && Bool.eqb (o_ev a) (o_ev b) && Bool.eqb (o_exit a) (o_exit b) && Bool.eqb (o_crash a) (o_crash b).
Definition main_done (s : st) : bool := match m_pc (mn s) with MDone => true | _ => false end.

Definition model_case (c : case) :=
  let s := final c in
  (trace (cfg_of c) (c_sched c) (init (cfg_of c)), lock s, idle s, busy s, closed s,
   map (fun i => obs_of (ws s i)) (seq 0 (nw s)), started s, ended s, refused s, poolclosed s, main_done s).

Definition check_case (c : case) : bool :=
  let s := final c in
  list_eqb Nat.eqb (trace (cfg_of c) (c_sched c) (init (cfg_of c))) (c_trace c)
  && optnat_eqb (lock s) (c_lock c)
  && list_eqb Nat.eqb (idle s) (c_idle c) && list_eqb Nat.eqb (busy s) (c_busy c) && Bool.eqb (closed s) (c_closed c)
  && list_eqb wobs_eqb (map (fun i => obs_of (ws s i)) (seq 0 (nw s))) (c_workers c)
  && list_eqb Nat.eqb (started s) (c_started c) && list_eqb Nat.eqb (ended s) (c_ended c)
  && list_eqb Nat.eqb (refused s) (c_refused c) && list_eqb Nat.eqb (poolclosed s) (c_poolclosed c)
  && Bool.eqb (main_done s) (c_main_done c)
  && forallb (fun r => list_eqb N.eqb r deny_reason) (c_reasons c)
  && Nat.eqb (length (c_reasons c)) (length (c_refused c)).

(* ---- racing closer (Model/PoolRace.v): thread 0 accept loop, 1 closer, 2+i Worker i ---- *)
From V Require Import Model.PoolRace.
Record rcase := { r_case : case; r_closer_done : bool }.
Definition rcfg_of (c : rcase) : cfg := mk_cfg (c_size (r_case c)) (c_min (r_case c)) (c_njobs (r_case c)) false gen_locks.
Definition rfinal (c : rcase) : rst := rrun (rcfg_of c) (c_sched (r_case c)) (rinit (rcfg_of c)).
Definition rmodel_case (rc : rcase) :=
  let r := rfinal rc in let s := base r in
  (rtrace (rcfg_of rc) (c_sched (r_case rc)) (rinit (rcfg_of rc)), lock s, idle s, busy s, closed s,
   map (fun i => obs_of (ws s i)) (seq 0 (nw s)), started s, ended s, refused s, poolclosed s, main_done s,
   match m_pc (kl r) with MDone => true | _ => false end).
Definition check_rcase (rc : rcase) : bool :=
  let c := r_case rc in let r := rfinal rc in let s := base r in
  list_eqb Nat.eqb (rtrace (rcfg_of rc) (c_sched c) (rinit (rcfg_of rc))) (c_trace c)
  && optnat_eqb (lock s) (c_lock c)
  && list_eqb Nat.eqb (idle s) (c_idle c) && list_eqb Nat.eqb (busy s) (c_busy c) && Bool.eqb (closed s) (c_closed c)
  && list_eqb wobs_eqb (map (fun i => obs_of (ws s i)) (seq 0 (nw s))) (c_workers c)
  && list_eqb Nat.eqb (started s) (c_started c) && list_eqb Nat.eqb (ended s) (c_ended c)
  && list_eqb Nat.eqb (refused s) (c_refused c) && list_eqb Nat.eqb (poolclosed s) (c_poolclosed c)
  && Bool.eqb (main_done s) (c_main_done c)
  && Bool.eqb (match m_pc (kl r) with MDone => true | _ => false end) (r_closer_done rc)
  && forallb (fun r => list_eqb N.eqb r deny_reason) (c_reasons c)
  && Nat.eqb (length (c_reasons c)) (length (c_refused c)).
