(* C14 correspondence: a history is run on the memory model and on the sqlite model
   (an injected statement failure that was reached = a failing statement of that operation);
   every answer and the full listing after every step are compared with
   what tools/harness/C14.py observed on the two real back-ends.  Answers are dicts and
   sets: they are sorted before comparison, and compared through a checksum of a
   length-prefixed serialisation (the same one the python side computes). *)
From Coq Require Import List NArith Arith Bool.
Import ListNotations.
From V Require Import Model.Bytes Model.NameServer Gen.GenNameServer Harness.Cmp.
Local Open Scope N_scope.

Fixpoint text_ltb (a b : text) : bool :=
  match a, b with
  | [], [] => false
  | [], _ :: _ => true
  | _ :: _, [] => false
  | x :: a', y :: b' => (x <? y) || ((x =? y) && text_ltb a' b')
  end.

Section Sort.
Context {A : Type} (key : A -> text).
Fixpoint insert_sorted (x : A) (l : list A) : list A :=
  match l with
  | [] => [x]
  | y :: l' => if text_ltb (key y) (key x) then y :: insert_sorted x l' else x :: y :: l'
  end.
Definition sort_by (l : list A) : list A := fold_right insert_sorted [] l.
End Sort.

(* serialisation: every text is length-prefixed, every list count-prefixed *)
Definition ser_text (t : text) : list N := Nlen t :: t.
Definition ser_tags (m : option tagset) : list N :=
  match m with
  | None => [0]
  | Some l => let s := sort_by (fun x => x) l in 1 :: Nlen s :: concat (map ser_text s)
  end.
Definition ser_item (kv : text * (text * option tagset)) : list N :=
  ser_text (fst kv) ++ ser_text (fst (snd kv)) ++ ser_tags (snd (snd kv)).
Definition ser_out (o : out) : list N :=
  match o with
  | OOk => [1]
  | OCount n => [2; n]
  | OUri u m => 3 :: ser_text u ++ ser_tags m
  | ODict d => let s := sort_by fst d in 4 :: Nlen s :: concat (map ser_item s)
  | ONamingError _ => [5]       (* which NamingError follows from the operation; its wording is not compared *)
  | OValueError => [6]
  | OStorageError => [7]
  | OInternal => [8]
  end.
Definition ck_out (o : out) : N * N := cksum (ser_out o).
Definition ck_eqb (a b : N * N) : bool := (fst a =? fst b) && (snd a =? snd b).

Record step := { s_op : ns_op;
                 s_fired : bool;                 (* an injected sqlite statement failure was reached in this operation *)
                 s_sql : N * N;                  (* checksum of the sqlite back-end's answer *)
                 s_sql_state : N * N;            (* full listing of the sqlite back-end afterwards *)
                 s_mem : option (N * N);         (* answer of the memory back-end; None: not run (sqlite failed) *)
                 s_mem_state : N * N }.
Record case := { c_q : quirks; c_steps : list step }.

Definition state_ck (d : dict) : N * N := ck_out (ODict (view true d)).

(* what the model says for one step: sqlite answer, statements, sqlite state, memory answer, memory state *)
(* WHICH statement index is reached is incidental (it depends on how many statements the code uses for a
   read); what the property says is what happens when a statement fails: the operation raises and nothing
   changed.  So a failure point that fired is played on the model as the first statement failing
   (C14_failure_atomic: every failing index inside the operation gives this same result). *)
Definition model_step (q : quirks) (m : dict) (t : tables) (s : step)
  : dict * tables * (out * dict * option out * dict) :=
  let '(t', o) := sql_step ns_name q (if s_fired s then Some O else None) t (s_op s) in
  match s_mem s with
  | Some _ => let '(m', om) := mem_step ns_name q m (s_op s) in (m', t', (o, abs t', Some om, m'))
  | None => (m, t', (o, abs t', None, m))
  end.

Fixpoint model_steps (q : quirks) (m : dict) (t : tables) (l : list step) : list (out * dict * option out * dict) :=
  match l with
  | [] => []
  | s :: l' => let '(m', t', r) := model_step q m t s in r :: model_steps q m' t' l'
  end.
Definition model_case (c : case) := model_steps (c_q c) [] tables_empty (c_steps c).

Definition check_step (s : step) (r : out * dict * option out * dict) : bool :=
  let '(o, ts, om, ms) := r in
  ck_eqb (ck_out o) (s_sql s) && ck_eqb (state_ck ts) (s_sql_state s) &&
  match om, s_mem s with
  | Some x, Some y => ck_eqb (ck_out x) y
  | None, None => true
  | _, _ => false
  end && ck_eqb (state_ck ms) (s_mem_state s).

Fixpoint all2 {A B} (f : A -> B -> bool) (a : list A) (b : list B) : bool :=
  match a, b with
  | [], [] => true
  | x :: a', y :: b' => f x y && all2 f a' b'
  | _, _ => false
  end.
Definition check_case (c : case) : bool := all2 check_step (c_steps c) (model_case c).

(* diagnostics: index of the first disagreeing step and the model's view of it *)
Fixpoint first_bad (i : nat) (ss : list step) (rs : list (out * dict * option out * dict)) :=
  match ss, rs with
  | s :: ss', r :: rs' => if check_step s r then first_bad (S i) ss' rs' else Some (i, r)
  | _, _ => None
  end.
Definition model_diag (c : case) := first_bad 0 (c_steps c) (model_case c).
