(* C04 correspondence: run the ClassTag model (instantiated with the tables generated from
   Pyro5/serializers.py) on a decoded literal and compare with what the real loads / loadsCall
   did on the same payload (as recorded by tools/harness/C04.py). *)
From Coq Require Import List NArith ZArith Bool String.
Import ListNotations.
From V Require Import Model.ClassTagDefs Model.ClassTag Gen.GenClassTag Harness.Cmp.

(* the model at the generated tables *)
Definition gen_run (reg : list text) (ser : N) (call : bool) (parts : list val) : M (list val) :=
  match find_mode ser_hooks ser call with
  | None => ([], Rej EIndexError)
  | Some mode =>
    run_mode gen_env dtc_pre dtc_chain dtc_tagkey mkexc_argskey mkexc_attrkey
             rc_handles_set rc_handles_list rc_handles_tuple rc_handles_dict ext_codes reg
             (find_special ser_float_special ser) mode parts
  end.

(* observation of the implementation: the canonical names of the classes of all objects reachable in the
   result, or the exception class (ext = raised inside a constructor / __setstate__ / make_exception) *)
Inductive iobs := IOk (census : list text) | IErr (e : err) (ext : bool) | IErrOther (ext : bool).

(* the registry each serializer class sees after a history of register / unregister calls, per the generated mode *)
Definition gen_inplace (k : regkind) : bool := match k with KD2C => reg_d2c_inplace | KC2D => reg_c2d_inplace end.
Definition gen_norm_register (k : regkind) : bool := match k with KD2C => reg_d2c_norm_register | KC2D => false end.
Definition gen_norm_unregister (k : regkind) : bool := match k with KD2C => reg_d2c_norm_unregister | KC2D => false end.
Definition gen_effective (k : regkind) (h : list regop) (ser : N) : list text :=
  effective (gen_inplace k) (gen_norm_register k) (gen_norm_unregister k) k h ser.

Record case := { c_ser : N; c_call : bool;
                 c_hist : list regop;         (* register / unregister calls made before decoding, through either entry point *)
                 c_c2d : list (text * bool);  (* per harness class: did this serializer's class_to_dict use the converter afterwards *)
                 c_parts : list val;
                 c_hostile : bool;            (* members were generated that may make a constructor / __setstate__ / setattr fail *)
                 c_obs : iobs; c_convs : list text }.   (* c_convs: tags the registered converter was called with, in order *)

Definition cls_name (c : cls) : text :=
  match c with
  | CNamed p => p
  | CNs _ _ (EntClass canon _ _) | CAll _ (EntClass canon _ _) => canon
  | CNs ns name EntOther => ns ++ txt "." ++ name ++ txt "()"
  | CAll name EntOther => txt "all_exceptions." ++ name ++ txt "()"
  | CCustom t => txt "custom:" ++ t
  end.

Definition proxy_name := txt "Pyro5.client.Proxy".
Definition uri_name := txt "Pyro5.core.URI".
(* client.Proxy.__setstate__ builds a core.URI from state[0]: a re-created proxy always holds one *)
Definition model_census (parts : list val) : list text :=
  let names := map cls_name (flat_map census parts) in
  if mem proxy_name names then uri_name :: names else names.

Definition subset (a b : list text) : bool := forallb (fun x => mem x b) a.
Definition set_eqb (a b : list text) : bool := subset a b && subset b a.

(* The property only says that a rejected payload is "rejected with an error"; the one rejection whose kind it names is
   the refusal of a double-underscore tag.  Rejections are therefore compared by category: that refusal, or any other error. *)
Definition is_security (e : err) : bool := match e with ESecurity => true | _ => false end.
Definition err_eqb (a b : err) : bool := Bool.eqb (is_security a) (is_security b).

Definition convs_of (lg : list event) : list text :=
  flat_map (fun ev => match ev with EvConverter t => [t] | _ => [] end) lg.
Definition constructs (lg : list event) : bool :=
  existsb (fun ev => match ev with EvConstruct _ => true | _ => false end) lg.
Fixpoint is_prefix (a b : list text) : bool :=
  match a, b with
  | [], _ => true
  | x :: a', y :: b' => text_eqb x y && is_prefix a' b'
  | _, _ => false
  end.

Definition c_reg (c : case) : list text := gen_effective KD2C (c_hist c) (c_ser c).
Definition c2d_ok (c : case) : bool :=
  forallb (fun p => Bool.eqb (mem (fst p) (gen_effective KC2D (c_hist c) (c_ser c))) (snd p)) (c_c2d c).

Definition check_case (c : case) : bool :=
  c2d_ok c &&
  let '(lg, o) := gen_run (c_reg c) (c_ser c) (c_call c) (c_parts c) in
  (* an external failure (constructor, __setstate__, setattr rejected its arguments) is accepted where the model
     says a construction was attempted and the case was generated as hostile to constructors *)
  let ext_ok := fun ext => ext && c_hostile c && constructs lg && is_prefix (c_convs c) (convs_of lg) in
  match c_obs c, o with
  | IOk cen, Ok parts => list_eqb text_eqb (convs_of lg) (c_convs c) && set_eqb (model_census parts) cen
  | IErr e ext, Rej e' => (err_eqb e e' && list_eqb text_eqb (convs_of lg) (c_convs c)) || ext_ok ext
  | IErr _ ext, Ok _ => ext_ok ext
  | IErrOther ext, Rej e' => (negb (is_security e') && list_eqb text_eqb (convs_of lg) (c_convs c)) || ext_ok ext
  | IErrOther ext, Ok _ => ext_ok ext
  | IOk _, Rej _ => false
  end.

(* diagnostics for replays *)
Definition model_view (c : case) :=
  let '(lg, o) := gen_run (c_reg c) (c_ser c) (c_call c) (c_parts c) in
  (c_reg c, gen_effective KC2D (c_hist c) (c_ser c), convs_of lg, constructs lg, match o with Ok parts => inl (model_census parts) | Rej e => inr e end).
