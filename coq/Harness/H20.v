(* C20 correspondence: run the Gateway model on a case and compare with what pyro_app did
   behind recording stubs (tools/harness/C20.py). *)
From Coq Require Import List NArith Bool String Ascii.
Import ListNotations.
From V Require Import Model.Gateway Gen.GenGateway Harness.Cmp.
Local Open Scope N_scope.

(* compact literal for printable-ASCII text in the generated case files *)
Definition t (s : string) : text := List.map N_of_ascii (list_ascii_of_string s).

Definition gen_consts : consts :=
  {| k_prefix := path_prefix; k_methods := allowed_methods; k_preflight := preflight_method;
     k_key := key_param; k_meta := meta_member; k_oneway := oneway_option; k_sep := options_sep;
     k_index_limit := index_limit |}.

(* regex oracle: the harness evaluates re.match(pattern, name) for every name the request or the
   registry can mention and ships the answers; a name missing from the table counts as no match *)
Definition table_matches (tbl : list (text * bool)) (pattern name : text) : bool :=
  match assoc name tbl with Some b => b | None => false end.

Record case := { c_quirks : quirks; c_cfg : config; c_be : backend; c_rq : request;
                 c_match : list (text * bool);
                 c_out : outcome; c_acts : list action }.

Definition pval_eqb (a b : pval) : bool :=
  match a, b with
  | One x, One y => teqb x y
  | Many x, Many y => list_eqb teqb x y
  | _, _ => false
  end.
Definition kw_eqb (a b : text * pval) : bool := teqb (fst a) (fst b) && pval_eqb (snd a) (snd b).
Definition action_eqb (a b : action) : bool :=
  match a, b with
  | AGetNS, AGetNS => true
  | ANsList x, ANsList y | ALookup x, ALookup y | ANewProxy x, ANewProxy y | ABind x, ABind y
  | AGetMeta x, AGetMeta y | ARelease x, ARelease y => teqb x y
  | AInvoke u m k o, AInvoke u' m' k' o' => teqb u u' && teqb m m' && list_eqb kw_eqb k k' && Bool.eqb o o'
  | AGetAttr u m, AGetAttr u' m' | ALocal u m, ALocal u' m' => teqb u u' && teqb m m'
  | _, _ => false
  end.
(* which builtin exception class the gateway itself uses to reject a forwarded request (bad correlation id,
   parameters on an attribute read, unknown member, uncallable parameter name) is incidental: the property only
   says the client gets an error (500).  Errors coming from the backend keep their class. *)
Definition exc_eqb (a b : exc) : bool :=
  match a, b with
  | ENaming, ENaming => true
  | EBackend x, EBackend y => x =? y
  | (EValue | EAssertion | EAttribute | ETypeError), (EValue | EAssertion | EAttribute | ETypeError) => true
  | _, _ => false
  end.
Definition body_eqb (a b : body) : bool :=
  match a, b with
  | BRedirect, BRedirect | BPreflight, BPreflight | BNotAllowed, BNotAllowed | BNotFound, BNotFound
  | BNsDown, BNsDown | BEmpty, BEmpty => true
  (* the wording of a refusal (which of the two 403 texts) is incidental; the status is compared *)
  | (BForbiddenKey | BForbiddenObject), (BForbiddenKey | BForbiddenObject) => true
  | BIndex x, BIndex y => list_eqb teqb x y
  | BMeta m a, BMeta m' a' => list_eqb teqb m m' && list_eqb teqb a a'
  | BRaw x, BRaw y => list_eqb N.eqb x y
  | BError x, BError y => exc_eqb x y
  | _, _ => false
  end.
Definition outcome_eqb (a b : outcome) : bool :=
  match a, b with
  | Resp s b c, Resp s' b' c' => (s =? s') && body_eqb b b' && Bool.eqb c c'
  | Crash, Crash => true
  | _, _ => false
  end.

Definition model_run (c : case) : outcome * list action :=
  route (table_matches (c_match c)) gen_consts (c_quirks c) (c_cfg c) (c_be c) (c_rq c).
Definition check_case (c : case) : bool :=
  let r := model_run c in
  outcome_eqb (fst r) (c_out c) && list_eqb action_eqb (snd r) (c_acts c).
