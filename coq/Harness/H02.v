(* C02 correspondence: run the Expose model (with the privacy predicate generated from
   Pyro5/server.py) on a case and compare with what the implementation did, as recorded by
   tools/harness/C02.py through raw INVOKE messages fed to the real Daemon.handleRequest. *)
From Coq Require Import List NArith Arith Bool.
Import ListNotations.
From V Require Import Model.StrFun Model.Expose Gen.GenServer Harness.Cmp.

Definition isp := is_private_attribute.

Record robs := { o_reply : reply; o_log : list (nat * acc) }.
Record scase := {
  c_quirks : quirks;                    (* which variant the implementation was probed to be *)
  c_shape : shape;
  c_methods : list text; c_oneway : list text; c_attrs : list text;   (* get_metadata, as observed *)
  c_refused : list nat;                 (* members whose own @expose raised *)
  c_reqs : list (request * robs)
}.
(* a history over several objects registered in one daemon (their classes may share a name): get_metadata
   calls and requests, in order; the model threads the per-class metadata cache through it *)
Inductive hop :=
| HMeta (obj : nat) (answered : bool) (methods oneway attrs : list text)   (* answered = false: get_metadata raised *)
| HReq (obj : nat) (r : request) (o : robs).
Record hcase := { h_quirks : quirks; h_classes : list shape; h_objects : list nat; h_ops : list hop }.
Inductive case := SC (c : scase) | PC (n : text) (impl_private : bool) | HC (c : hcase).

Definition reply_eqb (a b : reply) : bool :=
  match a, b with RepResult, RepResult | RepError, RepError | RepNone, RepNone => true | _, _ => false end.
Definition log_eqb (a b : list (nat * acc)) : bool :=
  list_eqb (pair_eqb Nat.eqb acc_eqb) a b.
Definition subset (a b : list text) : bool := forallb (fun x => t_mem x b) a.
Definition set_eqb (a b : list text) : bool := subset a b && subset b a.
Definition nsubset (a b : list nat) : bool := forallb (fun x => existsb (Nat.eqb x) b) a.

Definition model_req (q : quirks) (s : shape) (r : request) : list (nat * acc) * reply :=
  let '(e, rep) := serve isp q s r in (map (fun x => (m_id (fst x), snd x)) e, rep).
Definition model_meta (s : shape) := (meta_methods isp s, meta_oneway isp s, meta_attrs isp s).
Definition model_refused (s : shape) : list nat := map m_id (filter (own_mark_refused isp) (s_members s)).

(* member and helper effects must agree exactly and in order; attribute-hook effects of the implementation must be
   among those the model predicts (the model is an upper bound for them: an implementation that consults the hooks
   less often — e.g. resolves statically first — is not a disagreement) *)
Definition not_hook (e : nat * acc) : bool := negb (acc_eqb (snd e) AHook).
Definition hooks_within (model impl : list (nat * acc)) : bool :=
  forallb (fun e => not_hook e || existsb (fun e' => pair_eqb Nat.eqb acc_eqb e e') model) impl.
Definition check_req (q : quirks) (s : shape) (ro : request * robs) : bool :=
  let '(l, rep) := model_req q s (fst ro) in
  log_eqb (filter not_hook l) (filter not_hook (o_log (snd ro))) && hooks_within l (o_log (snd ro)) &&
  reply_eqb rep (o_reply (snd ro)).

Definition check_scase (c : scase) : bool :=
  let s := c_shape c in
  set_eqb (meta_methods isp s) (c_methods c) && set_eqb (meta_oneway isp s) (c_oneway c) &&
  set_eqb (meta_attrs isp s) (c_attrs c) &&
  nsubset (model_refused s) (c_refused c) && nsubset (c_refused c) (model_refused s) &&
  forallb (check_req (c_quirks c) s) (c_reqs c).

(* indices of the requests of a case on which model and implementation differ (diagnostics) *)
Definition bad_reqs (c : scase) : list nat :=
  mismatches (check_req (c_quirks c) (c_shape c)) (c_reqs c).

Fixpoint check_hist (q : quirks) (classes : list shape) (objs : list nat) (st : mstate) (ops : list hop) : bool :=
  match ops with
  | [] => true
  | HMeta o answered ms os ats :: rest =>
      let '(a, st') := get_metadata isp (fun k => k) classes st (class_of objs o) in
      (* an implementation that completes a scan the model expects to be aborted (e.g. it skips the raising attribute)
         is accepted when its answer is the class's member list *)
      let '(mm, mo, ma) := match a with Some md => md | None => meta_of isp (nth (class_of objs o) classes empty_shape) end in
      (if answered then set_eqb mm ms && set_eqb mo os && set_eqb ma ats
       else match a with None => true | Some _ => false end)
      && check_hist q classes objs st' rest
  | HReq o r ob :: rest =>
      check_req q (nth (class_of objs o) classes empty_shape) (r, ob) && check_hist q classes objs st rest
  end.
Definition check_hcase (c : hcase) : bool := check_hist (h_quirks c) (h_classes c) (h_objects c) ms_empty (h_ops c).

Definition check_case (c : case) : bool :=
  match c with
  | SC c => check_scase c
  | PC n b => Bool.eqb (isp n) b
  | HC c => check_hcase c
  end.
