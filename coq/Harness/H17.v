(* C17 correspondence: run the SockIO model on a case and compare with what the
   implementation did (as recorded by tools/harness/C17.py). *)
From Coq Require Import List NArith Arith Bool.
Import ListNotations.
From V Require Import Model.Bytes Model.SockIO Gen.GenSockutil Harness.Cmp.

(* stream bytes are given either literally or as a pattern (a, c, len) *)
Inductive src := Lit (b : bytes) | Pat (a c len : N).
Definition src_bytes (s : src) : bytes :=
  match s with Lit b => b | Pat a c len => pattern a c len end.

(* observation of a receive: kind, checksum of returned/partial data, bytes consumed, sleeps *)
Inductive robs :=
| OOk (ck : N * N) | OClosedPartial (ck : N * N) | OClosed | OTimeout | OScriptEnd.
Record rcase := { rc_waitall : bool; rc_size : N; rc_script : list sock_ev; rc_stream : src;
                  rc_obs : robs; rc_consumed : N; rc_delays : N }.

Definition ck_eqb (a b : N * N) : bool := (fst a =? fst b)%N && (snd a =? snd b)%N.
Definition robs_eqb (a b : robs) : bool :=
  match a, b with
  | OOk x, OOk y => ck_eqb x y
  | OClosedPartial x, OClosedPartial y => ck_eqb x y
  | OClosed, OClosed | OTimeout, OTimeout | OScriptEnd, OScriptEnd => true
  | _, _ => false
  end.

Definition cap_nat : nat := N.to_nat recv_cap.

Definition model_recv (c : rcase) : robs * N * N :=
  let stream := src_bytes (rc_stream c) in
  let o := receive_data errno_retries cap_nat (rc_waitall c) (N.to_nat (rc_size c)) (rc_script c) stream in
  let obs := match r_res o with
             | ROk d => OOk (cksum d)
             | RClosed (Some p) => OClosedPartial (cksum p)
             | RClosed None => OClosed
             | RTimeout => OTimeout
             | RScriptEnd => OScriptEnd
             end in
  (obs, (Nlen stream - Nlen (r_stream o))%N, N.of_nat (r_delays o)).

(* What is compared is what the property speaks of: the outcome, the data, the bytes consumed.  Not compared: the number
   of back-off sleeps (timing), and whether a connection-closed error raised for a FATAL socket error also carries the
   bytes received so far (the pinned code attaches them only at end of stream; the property asks for them on every
   connection-closed error, so a version that attaches the correct prefix there as well is accepted). *)
Definition check_recv (c : rcase) : bool :=
  let '(obs, consumed, delays) := model_recv c in
  (match obs, rc_obs c with
   | OClosed, OClosedPartial y => ck_eqb (cksum (takeN consumed (src_bytes (rc_stream c)))) y
   | a, b => robs_eqb a b
   end) && (consumed =? rc_consumed c)%N.

Inductive sobs := SoOk | SoClosed | SoTimeout | SoScriptEnd.
Record scase := { sc_blocking : bool; sc_data : src; sc_script : list sock_ev;
                  sc_obs : sobs; sc_peer : N * N; sc_delays : N }.
Definition sobs_eqb (a b : sobs) : bool :=
  match a, b with
  | SoOk, SoOk | SoClosed, SoClosed | SoTimeout, SoTimeout | SoScriptEnd, SoScriptEnd => true
  | _, _ => false
  end.
Definition model_send (c : scase) : sobs * (N * N) * N :=
  let o := send_data errno_retries (sc_blocking c) (src_bytes (sc_data c)) (sc_script c) [] in
  let obs := match s_res o with SOk => SoOk | SClosed => SoClosed | STimeout => SoTimeout | SScriptEnd => SoScriptEnd end in
  (obs, cksum (s_peer o), N.of_nat (s_delays o)).
Definition check_send (c : scase) : bool :=
  let '(obs, ck, delays) := model_send c in
  sobs_eqb obs (sc_obs c) && ck_eqb ck (sc_peer c).

Inductive case := RC (c : rcase) | SC (c : scase).
Definition check_case (c : case) : bool :=
  match c with RC r => check_recv r | SC s => check_send s end.
