(* C06 over C17: recv_stub reading from a socket (Model/SockIO.v) instead of a plain byte
   list.  Each connection.recv(n) of protocol.recv_stub is one receive_data call on the
   socket script; None = the socket layer raised (closed, timeout) or the script ended.
   Definitions only. *)
From Coq Require Import List NArith Arith Bool.
Import ListNotations.
From V Require Import Model.Bytes Model.SockIO Model.Wire Gen.GenProtocol Gen.GenSockutil Harness.H17.
Local Open Scope N_scope.

Definition io_recv (waitall : bool) (n : N) (script : list sock_ev) (stream : bytes)
  : option (bytes * bytes * list sock_ev) :=
  (* more bytes requested than the stream will ever hold: the read cannot succeed (C17_recv_exact), whatever
     the socket does; decided on N so that a declared size of 2^30 is never turned into a unary nat *)
  if Nlen stream <? n then None
  else
    let o := receive_data errno_retries cap_nat waitall (N.to_nat n) script stream in
    match r_res o with
    | ROk d => Some (d, r_stream o, r_script o)
    | _ => None
    end.

Definition recv_stub_io (c : wcfg) (accepted : option (list N)) (unz : option bytes)
                        (waitall : bool) (script : list sock_ev) (stream : bytes)
  : option (result rmsg * N) :=
  match io_recv waitall 6 script stream with
  | None => None
  | Some (h6, s1, sc1) =>
      if negb (bytes_eqb (sub 0 4 h6) tag_PYRO) then Some (Err EProtocol, 6)
      else if negb (bytes_eqb (sub 4 2 h6) (be16 protocol_version)) then Some (Err EProtocol, 6)
      else
        match io_recv waitall (header_size - 6) sc1 s1 with
        | None => None
        | Some (h34, s2, sc2) =>
            let h := parse_header (h6 ++ h34) in
            if negb (check_header c h) then Some (Err EProtocol, header_size)
            else if max_size c <? h_dsize h + h_asize h then Some (Err EProtocol, header_size)
            else if match accepted with
                    | Some ((_ :: _) as l) => negb (existsb (N.eqb (h_type h)) l)
                    | _ => false
                    end then Some (Err EProtocol, header_size)
            else
              match io_recv waitall (h_asize h + h_dsize h) sc2 s2 with
              | None => None
              | Some (payload, _, _) =>
                  Some (add_payload h payload unz, header_size + h_asize h + h_dsize h)
              end
        end
  end.
