(* C20 — executable model of the HTTP gateway (Pyro5/utils/httpgateway.py:
   pyro_app, process_pyro_request, return_homepage, singlyfy_parameters).
   Definitions only.  Text is a list of code points, bytes a list of N.

   One request is mapped to an outcome (status + body class) and the ordered list of
   backend actions (everything that reaches the name server or a Pyro proxy).
   External behaviour is data: the regex oracle [matches pattern name], the parsed
   query string (urllib.parse.parse_qs), validity of the correlation-id header, and
   the scripted backend (name-server registry, object metadata, reply of the call). *)
From Coq Require Import List NArith Bool.
Import ListNotations.
Local Open Scope N_scope.

Definition text := list N.

Fixpoint teqb (a b : text) : bool :=
  match a, b with
  | [], [] => true
  | x :: a', y :: b' => (x =? y) && teqb a' b'
  | _, _ => false
  end.
Definition mem (x : text) (l : list text) : bool := existsb (teqb x) l.

Fixpoint assoc {A} (k : text) (l : list (text * A)) : option A :=
  match l with
  | [] => None
  | (k', v) :: l' => if teqb k k' then Some v else assoc k l'
  end.
Definition remove_key {A} (k : text) (l : list (text * A)) : list (text * A) :=
  filter (fun kv => negb (teqb k (fst kv))) l.

(* ---- constants taken from the source by tools/gen/gen_gateway.py ---- *)
Record consts := { k_prefix : text; k_methods : list text; k_preflight : text;
                   k_key : text; k_meta : text; k_oneway : text; k_sep : N;
                   k_index_limit : nat }.     (* how many listed names the index page details *)

(* ---- str.encode("utf-8") (surrogates are outside the model) ---- *)
Definition utf8_cp (c : N) : list N :=
  if c <? 128 then [c]
  else if c <? 2048 then [192 + c / 64; 128 + c mod 64]
  else if c <? 65536 then [224 + c / 4096; 128 + (c / 64) mod 64; 128 + c mod 64]
  else [240 + c / 262144; 128 + (c / 4096) mod 64; 128 + (c / 64) mod 64; 128 + c mod 64].
Definition utf8 (t : text) : list N := flat_map utf8_cp t.

(* ---- path handling ---- *)
Definition slash : N := 47.
Definition newline : N := 10.

Fixpoint lstrip_slash (p : text) : text :=
  match p with
  | c :: p' => if c =? slash then lstrip_slash p' else p
  | [] => []
  end.

Fixpoint strip_prefix (pre p : text) : option text :=
  match pre, p with
  | [], _ => Some p
  | a :: pre', b :: p' => if a =? b then strip_prefix pre' p' else None
  | _ :: _, [] => None
  end.

(* the part of the text `.` can run over: up to the first newline *)
Fixpoint first_line (p : text) : text :=
  match p with
  | [] => []
  | c :: p' => if c =? newline then [] else c :: first_line p'
  end.

(* re.match(r"(.+)/(.+)", path).groups(): greedy, so the split is at the LAST slash of the
   first line that has at least one character on both sides.
   split_line l = Some (o, m): l = o ++ "/" ++ m, both non-empty, and no later slash of l
   has a non-empty remainder. *)
Fixpoint split_line (l : text) : option (text * text) :=
  match l with
  | [] => None
  | c :: l' =>
    match split_line l' with
    | Some (o, m) => Some (c :: o, m)
    | None =>
      match l' with
      | s :: ((_ :: _) as m) => if s =? slash then Some ([c], m) else None
      | _ => None
      end
    end
  end.
Definition split_path (p : text) : option (text * text) := split_line (first_line p).

(* ---- header X-Pyro-Options: value.split(",") ---- *)
Fixpoint split_on (sep : N) (t : text) : list text :=
  match t with
  | [] => [[]]
  | c :: t' =>
    if c =? sep then [] :: split_on sep t'
    else match split_on sep t' with
         | w :: ws => (c :: w) :: ws
         | [] => [[c]]
         end
  end.

(* ---- query parameters ---- *)
Inductive pval := One (v : text) | Many (vs : list text).
Definition singlyfy (vs : list text) : pval :=
  match vs with [v] => One v | _ => Many vs end.
Definition kwargs_of (params : list (text * list text)) : list (text * pval) :=
  map (fun kv => (fst kv, singlyfy (snd kv))) params.

(* ---- configuration, request, backend ---- *)
Record config := { cfg_key : option (list N);      (* pyro_app.gateway_key: None or bytes *)
                   cfg_pattern : text }.           (* pyro_app.ns_regex *)
Record quirks := { q_multi_key_crash : bool;       (* repeated $key: AttributeError instead of 403 *)
                   q_proxy_local : bool }.         (* members outside the metadata reach getattr(proxy, ..) *)
Definition quirks_none : quirks := {| q_multi_key_crash := false; q_proxy_local := false |}.

Inductive corr := CorrNone | CorrValid | CorrInvalid.
Record request := { rq_method : option text;               (* REQUEST_METHOD *)
                    rq_path : text;                        (* PATH_INFO *)
                    rq_params : list (text * list text);   (* parse_qs(QUERY_STRING), dict order *)
                    rq_keyhdr : text;                      (* X-Pyro-Gateway-Key *)
                    rq_options : text;                     (* X-Pyro-Options *)
                    rq_corr : corr }.                      (* X-Pyro-Correlation-Id: absent / uuid / junk *)

Inductive reply := ROk (data : list N) | RExc (data : list N) | RRaise (cls : N).
Record metadata := { md_methods : list text; md_attrs : list text; md_oneway : list text }.
Record backend := { be_ns_ok : bool;                       (* get_nameserver() succeeds *)
                    be_registry : list (text * text);      (* name -> uri *)
                    be_meta : option metadata;             (* None: metadata retrieval raises ... *)
                    be_meta_exc : N;                       (* ... this exception class *)
                    be_reply : reply;                      (* what the one remote call answers *)
                    be_local_void : list text }.           (* quirk only: proxy-local zero-argument names returning None *)

Inductive action :=
| AGetNS
| ANsList (pattern : text)
| ALookup (name : text)
| ANewProxy (uri : text)
| ABind (uri : text)
| AGetMeta (uri : text)
| AInvoke (uri member : text) (kwargs : list (text * pval)) (oneway : bool)
| AGetAttr (uri member : text)
| ALocal (uri member : text)          (* a method of the local proxy object ran (quirk) *)
| ARelease (uri : text).

Inductive exc := ENaming | EValue | EAssertion | EAttribute | ETypeError | EBackend (cls : N).
Inductive body :=
| BRedirect | BPreflight | BNotAllowed | BNotFound | BForbiddenKey | BForbiddenObject
| BNsDown | BIndex (names : list text)
| BMeta (methods attrs : list text) | BRaw (data : list N) | BEmpty | BError (e : exc).
Inductive outcome :=
| Resp (status : N) (b : body) (corr_header : bool)
| Crash.                                (* an exception leaves pyro_app *)

Definition err (e : exc) : outcome := Resp 500 (BError e) false.

(* the one keyword Python itself refuses when the parameters are passed as keywords *)
Definition py_self : text := [115; 101; 108; 102].

(* ---- key check ---- *)
Inductive presented := PStr (s : text) | PList.
Definition presented_key (K : consts) (rq : request) : presented :=
  match rq_keyhdr rq with
  | _ :: _ => PStr (rq_keyhdr rq)
  | [] => match assoc (k_key K) (rq_params rq) with
          | None => PStr []
          | Some [v] => PStr v
          | Some _ => PList
          end
  end.

Fixpoint beqb (a b : list N) : bool :=
  match a, b with
  | [], [] => true
  | x :: a', y :: b' => (x =? y) && beqb a' b'
  | _, _ => false
  end.

Inductive keyres := KOk (params : list (text * list text)) | KDenied | KCrash.
Definition key_check (K : consts) (q : quirks) (cfg : config) (rq : request) : keyres :=
  match cfg_key cfg with
  | Some ((_ :: _) as k) =>
    match presented_key K rq with
    | PList => if q_multi_key_crash q then KCrash else KDenied
    | PStr s => if beqb (utf8 s) k then KOk (remove_key (k_key K) (rq_params rq)) else KDenied
    end
  | _ => KOk (rq_params rq)
  end.

(* ---- sorted(): code-point lexicographic insertion sort ---- *)
Fixpoint tleb (a b : text) : bool :=
  match a, b with
  | [], _ => true
  | _ :: _, [] => false
  | x :: a', y :: b' => if x <? y then true else if y <? x then false else tleb a' b'
  end.
Fixpoint insert_sorted (x : text) (l : list text) : list text :=
  match l with
  | [] => [x]
  | y :: l' => if tleb x y then x :: l else y :: insert_sorted x l'
  end.
Definition sort_texts (l : list text) : list text := fold_right insert_sorted [] l.

Section Gateway.
  Variable matches : text -> text -> bool.     (* bool(re.match(pattern, name)) *)
  Variable K : consts.

  Definition exposedb (cfg : config) (name : text) : bool :=
    match cfg_pattern cfg with
    | [] => true
    | _ => matches (cfg_pattern cfg) name
    end.

  (* return_homepage *)
  Definition index_names (cfg : config) (be : backend) : list text :=
    sort_texts (firstn (k_index_limit K) (filter (exposedb cfg) (map fst (be_registry be)))).
  Definition uri_of (be : backend) (name : text) : text :=
    match assoc name (be_registry be) with Some u => u | None => [] end.
  Definition homepage (cfg : config) (be : backend) : outcome * list action :=
    if be_ns_ok be then
      let names := index_names cfg be in
      (Resp 200 (BIndex names) false,
       AGetNS :: ANsList (cfg_pattern cfg) :: map ALookup names
         ++ flat_map (fun n => [ANewProxy (uri_of be n); ABind (uri_of be n); ARelease (uri_of be n)]) names)
    else (Resp 500 BNsDown false, [AGetNS]).

  (* the part of process_pyro_request inside `try:` *)
  Definition forward (q : quirks) (be : backend) (rq : request) (obj member : text)
             (params : list (text * list text)) : outcome * list action :=
    if negb (be_ns_ok be) then (err ENaming, [AGetNS]) else
    match assoc obj (be_registry be) with
    | None => (err ENaming, [AGetNS; ALookup obj])
    | Some uri =>
      match rq_corr rq with
      | CorrInvalid => (err EValue, [AGetNS; ALookup obj; ANewProxy uri; ARelease uri])
      | _ =>
        match be_meta be with
        | None => (err (EBackend (be_meta_exc be)), [AGetNS; ALookup obj; ANewProxy uri; AGetMeta uri; ARelease uri])
        | Some md =>
          let ow_opt := mem (k_oneway K) (split_on (k_sep K) (rq_options rq)) in
          if teqb member (k_meta K) then
            (Resp 200 (BMeta (md_methods md) (md_attrs md)) true,
             [AGetNS; ALookup obj; ANewProxy uri; AGetMeta uri; ARelease uri])
          else if mem member (md_attrs md) then
            match params with
            | _ :: _ => (err EAssertion, [AGetNS; ALookup obj; ANewProxy uri; AGetMeta uri; ARelease uri])
            | [] =>
              (match be_reply be with
               | RRaise c => err (EBackend c)
               | ROk d => if ow_opt then Resp 200 BEmpty true else Resp 200 (BRaw d) true
               | RExc d => if ow_opt then Resp 200 BEmpty true else Resp 500 (BRaw d) false
               end,
               [AGetNS; ALookup obj; ANewProxy uri; AGetMeta uri; AGetAttr uri member; ARelease uri])
            end
          else if mem member (md_methods md) then
            if mem py_self (map fst params) then
              (* the remote-method call object takes "self" positionally: a keyword of that name is a TypeError *)
              (err ETypeError, [AGetNS; ALookup obj; ANewProxy uri; AGetMeta uri; ARelease uri])
            else
            let ow := ow_opt || mem member (md_oneway md) in
            (if ow then Resp 200 BEmpty true else
               match be_reply be with
               | RRaise c => err (EBackend c)
               | ROk d => Resp 200 (BRaw d) true
               | RExc d => Resp 500 (BRaw d) false
               end,
             [AGetNS; ALookup obj; ANewProxy uri; AGetMeta uri;
              AInvoke uri member (kwargs_of params) ow; ARelease uri])
          else if q_proxy_local q && mem member (be_local_void be) then
            match params with
            | [] => (Resp 200 BEmpty true,
                     [AGetNS; ALookup obj; ANewProxy uri; AGetMeta uri; ALocal uri member; ARelease uri])
            | _ :: _ => (err ETypeError, [AGetNS; ALookup obj; ANewProxy uri; AGetMeta uri; ARelease uri])
            end
          else (err EAttribute, [AGetNS; ALookup obj; ANewProxy uri; AGetMeta uri; ARelease uri])
        end
      end
    end.

  Definition process (q : quirks) (cfg : config) (be : backend) (rq : request) (rest : text)
    : outcome * list action :=
    match rest with
    | [] => homepage cfg be
    | _ =>
      match split_path rest with
      | None => (Resp 404 BNotFound false, [])
      | Some (obj, member) =>
        match key_check K q cfg rq with
        | KCrash => (Crash, [])
        | KDenied => (Resp 403 BForbiddenKey false, [])
        | KOk params =>
          if exposedb cfg obj then forward q be rq obj member params
          else (Resp 403 BForbiddenObject false, [])
        end
      end
    end.

  Inductive mclass := MCall | MPreflight | MOther.
  Definition method_class (m : option text) : mclass :=
    match m with
    | None => MOther
    | Some m => if mem m (k_methods K) then (if teqb m (k_preflight K) then MPreflight else MCall) else MOther
    end.

  (* pyro_app *)
  Definition route (q : quirks) (cfg : config) (be : backend) (rq : request) : outcome * list action :=
    match lstrip_slash (rq_path rq) with
    | [] => (Resp 302 BRedirect false, [])
    | path =>
      match strip_prefix (k_prefix K) path with
      | None => (Resp 404 BNotFound false, [])
      | Some rest =>
        match method_class (rq_method rq) with
        | MOther => (Resp 405 BNotAllowed false, [])
        | MPreflight => (Resp 200 BPreflight false, [])
        | MCall => process q cfg be rq rest
        end
      end
    end.

  (* ---- vocabulary of the property statement ---- *)
  (* the request is a call request for (object, member): /pyro/<object>/<member> *)
  Definition call_target (rq : request) : option (text * text) :=
    match strip_prefix (k_prefix K) (lstrip_slash (rq_path rq)) with
    | Some ((_ :: _) as rest) => split_path rest
    | _ => None
    end.
  Definition is_index (rq : request) : bool :=
    match strip_prefix (k_prefix K) (lstrip_slash (rq_path rq)) with
    | Some [] => true
    | _ => false
    end.
  (* GET / POST: the methods that can carry a call *)
  Definition is_call_method (rq : request) : Prop := method_class (rq_method rq) = MCall.
  Definition key_configured (cfg : config) : bool :=
    match cfg_key cfg with Some (_ :: _) => true | _ => false end.
  (* the request presents the configured key: in the header when that is non-empty, otherwise as the
     single value of the key parameter; compared as UTF-8 bytes.  Trivially true without a configured key. *)
  Definition presents_key (cfg : config) (rq : request) : Prop :=
    forall k, cfg_key cfg = Some k -> k <> [] ->
      (rq_keyhdr rq <> [] /\ utf8 (rq_keyhdr rq) = k) \/
      (rq_keyhdr rq = [] /\ exists v, assoc (k_key K) (rq_params rq) = Some [v] /\ utf8 v = k).
  Definition exposed (cfg : config) (obj : text) : Prop :=
    cfg_pattern cfg = [] \/ matches (cfg_pattern cfg) obj = true.
  Definition authorised (cfg : config) (rq : request) (obj : text) : Prop :=
    is_call_method rq /\ presents_key cfg rq /\ exposed cfg obj.
  (* the keyword arguments a forwarded call must carry: every query parameter, flattened, minus the key parameter
     when a key is configured *)
  Definition forwarded_params (cfg : config) (rq : request) : list (text * pval) :=
    kwargs_of (if key_configured cfg then remove_key (k_key K) (rq_params rq) else rq_params rq).
  Definition is_remote_call (a : action) : bool :=
    match a with AInvoke _ _ _ _ | AGetAttr _ _ => true | _ => false end.
  Definition is_lookup (a : action) : bool :=
    match a with ALookup _ => true | _ => false end.
  Definition remote_calls (acts : list action) : nat := length (filter is_remote_call acts).

  (* what a backend action of a forwarded request may be *)
  Definition faithful_action (cfg : config) (be : backend) (rq : request) (obj member : text) (a : action) : Prop :=
    a = AGetNS \/ a = ALookup obj \/
    exists uri, assoc obj (be_registry be) = Some uri /\
      (a = ANewProxy uri \/ a = AGetMeta uri \/ a = ARelease uri \/ a = AGetAttr uri member \/
       exists ow, a = AInvoke uri member (forwarded_params cfg rq) ow).
  (* what the HTTP client may receive for a forwarded request *)
  Definition faithful_result (be : backend) (member : text) (r : outcome * list action) : Prop :=
    match fst r with
    | Resp st (BRaw d) c =>
        (st = 200 /\ c = true /\ be_reply be = ROk d /\ remote_calls (snd r) = 1%nat) \/
        (st = 500 /\ c = false /\ be_reply be = RExc d /\ remote_calls (snd r) = 1%nat)
    | Resp st BEmpty c => st = 200 /\ remote_calls (snd r) = 1%nat      (* oneway: nothing to report *)
    | Resp st (BMeta ms ats) c =>
        st = 200 /\ member = k_meta K /\ remote_calls (snd r) = 0%nat /\
        exists md, be_meta be = Some md /\ ms = md_methods md /\ ats = md_attrs md
    | Resp st (BError _) c => st = 500 /\ (remote_calls (snd r) <= 1)%nat
    | _ => False
    end.
  (* what the index page may do *)
  Definition index_action (cfg : config) (be : backend) (a : action) : Prop :=
    a = AGetNS \/ a = ANsList (cfg_pattern cfg) \/
    exists n, In n (map fst (be_registry be)) /\ exposed cfg n /\
      (a = ALookup n \/ a = ANewProxy (uri_of be n) \/ a = ABind (uri_of be n) \/ a = ARelease (uri_of be n)).
  Definition refusal (o : outcome) : Prop :=
    exists st b, o = Resp st b false /\
      (st = 403 \/ st = 404 \/ st = 405 \/ (st = 200 /\ b = BPreflight) \/ (st = 302 /\ b = BRedirect)).
End Gateway.
