(* C07 — remote exceptions: executable model, definitions only.

   Server: Daemon.handleRequest's handler routing (reply / no reply, connection kept /
   closed), SerializerBase.class_to_dict for exceptions, _sendExceptionResponse with its
   fallback, the batch wrapper (_ExceptionWrapper).  Client: dict_to_class whitelist decision,
   make_exception, `raise data` inside Proxy._pyroInvoke (connection released for some
   classes), BatchProxy's result generator.  Tables ([tables]) and handler structure
   ([facts]) are parameters; coq/Gen/GenExcs.v instantiates them from the source tree.

   Self-contained value type [xval]: None, bool, int, str, list, string-keyed dict and an
   unserialisable [XOpaque].  The serializer *libraries* are a parameter [codec] (what
   loads(dumps v) gives for plain data, before class recreation); the exception
   constructors are a parameter [ctor]. *)
From Coq Require Import List NArith ZArith Bool String Ascii.
Import ListNotations.

Definition text := list N.
Definition t (s : string) : text := map N_of_ascii (list_ascii_of_string s).

Fixpoint text_eqb (a b : text) : bool :=
  match a, b with
  | [], [] => true
  | x :: a', y :: b' => N.eqb x y && text_eqb a' b'
  | _, _ => false
  end.
Definition mem (x : text) (l : list text) : bool := existsb (text_eqb x) l.

Fixpoint starts (p s : text) : bool :=
  match p, s with
  | [], _ => true
  | x :: p', y :: s' => N.eqb x y && starts p' s'
  | _, _ => false
  end.
Fixpoint contains (p s : text) : bool :=
  starts p s || match s with [] => false | _ :: s' => contains p s' end.
(* str.split('.', 1): None when there is no dot *)
Fixpoint split_dot (s : text) : option (text * text) :=
  match s with
  | [] => None
  | c :: s' => if N.eqb c 46 then Some ([], s')
               else match split_dot s' with Some (a, b) => Some (c :: a, b) | None => None end
  end.

(* a class: name, module and the qualified names "module.Name" of its MRO (itself first) *)
Record cinfo := { c_name : text; c_mod : text; c_mro : list text }.

(* XOpaque: a bare object(), refused by every serializer with that serializer's usual error;
   XBadObj c: an object whose serialisation raises an error of class c (a __getstate__ that raises, an
   unassigned slot, nesting beyond the recursion limit, ...) *)
Inductive xval :=
| XNone | XBool (b : bool) | XInt (z : Z) | XStr (s : text)
| XList (l : list xval) | XDict (d : list (text * xval)) | XOpaque | XBadObj (c : cinfo).

Definition k_class : text := Eval compute in t "__class__".
Definition k_exception : text := Eval compute in t "__exception__".
Definition k_args : text := Eval compute in t "args".
Definition k_attributes : text := Eval compute in t "attributes".
Definition k_wrapped : text := Eval compute in t "exception".
Definition k_traceback : text := Eval compute in t "_pyroTraceback".
Definition wrapper_class : text := Eval compute in t "Pyro5.core._ExceptionWrapper".
Definition dunder : text := Eval compute in t "__".
Definition errors_prefix : text := Eval compute in t "Pyro5.errors.".
Definition builtins_prefix : text := Eval compute in t "builtins.".
Definition unknown_class : text := Eval compute in t "<unknown>".
Definition c_Exception : text := Eval compute in t "builtins.Exception".
Definition c_StopIteration : text := Eval compute in t "builtins.StopIteration".
Definition c_RuntimeError : text := Eval compute in t "builtins.RuntimeError".
Definition c_TypeError : text := Eval compute in t "builtins.TypeError".
Definition c_ValueError : text := Eval compute in t "builtins.ValueError".
Definition c_KeyError : text := Eval compute in t "builtins.KeyError".
Definition c_AttributeError : text := Eval compute in t "builtins.AttributeError".
Definition c_KeyboardInterrupt : text := Eval compute in t "builtins.KeyboardInterrupt".
Definition c_PyroError : text := Eval compute in t "Pyro5.errors.PyroError".
Definition c_CommunicationError : text := Eval compute in t "Pyro5.errors.CommunicationError".
Definition c_ConnectionClosedError : text := Eval compute in t "Pyro5.errors.ConnectionClosedError".
Definition c_TimeoutError : text := Eval compute in t "Pyro5.errors.TimeoutError".
Definition c_SecurityError : text := Eval compute in t "Pyro5.errors.SecurityError".
Definition c_SerializeError : text := Eval compute in t "Pyro5.errors.SerializeError".

(* serialisable by every serializer library *)
Fixpoint plain (v : xval) : bool :=
  match v with
  | XOpaque | XBadObj _ => false
  | XList l => forallb plain l
  | XDict d => forallb (fun kv => match kv with (_, x) => plain x end) d
  | _ => true
  end.
(* no dict carrying a "__class__" key (class recreation would rewrite it) *)
Fixpoint noclass (v : xval) : bool :=
  match v with
  | XList l => forallb noclass l
  | XDict d => negb (existsb (fun kv => text_eqb (fst kv) k_class) d) &&
               forallb (fun kv => match kv with (_, x) => noclass x end) d
  | _ => true
  end.
(* the lossless core of the property text *)
Definition core (v : xval) : bool := plain v && noclass v.
Definition core_list (l : list xval) : bool := forallb plain l && forallb noclass l.
Definition core_attrs (d : list (text * xval)) : bool :=
  forallb (fun kv => match kv with (_, x) => plain x end) d &&
  forallb (fun kv => match kv with (_, x) => noclass x end) d.

Fixpoint assoc (k : text) (d : list (text * xval)) : option xval :=
  match d with
  | [] => None
  | (k', v) :: d' => if text_eqb k k' then Some v else assoc k d'
  end.
(* setattr / dict update: replace in place, else append *)
Fixpoint set_attr (k : text) (v : xval) (d : list (text * xval)) : list (text * xval) :=
  match d with
  | [] => [(k, v)]
  | (k', v') :: d' => if text_eqb k k' then (k, v) :: d' else (k', v') :: set_attr k v d'
  end.

Definition qname (c : cinfo) : text := c_mod c ++ [46%N] ++ c_name c.
Definition isa (c : cinfo) (base : text) : bool := mem base (c_mro c).
Definition isa_any (c : cinfo) (bases : list text) : bool := existsb (isa c) bases.

Record exc := { e_cls : cinfo; e_args : list xval; e_attrs : list (text * xval) }.

Record tables := {
  t_classes : list cinfo;                 (* exception classes of builtins and Pyro5.errors *)
  t_all_keys : list (text * text);        (* serializers.all_exceptions: key -> qualified class *)
  t_alias : list (text * text);           (* builtins attribute name -> class name where they differ *)
  t_builtins_exc : list text;             (* names in builtins bound to exception classes *)
  t_errors_pyro : list text;              (* names in Pyro5.errors bound to PyroError subclasses *)
  t_builtin_namespaces : list text;       (* ("builtins", "exceptions") *)
  t_dunder_refused : bool;
  t_uses_all_exceptions : bool;
  t_ctd_keys : list text;                 (* keys of the dict class_to_dict builds for an exception *)
  t_restores_attrs : bool                 (* make_exception sets data["attributes"] back *)
}.

Record facts := {
  f_catch : text;                 (* handleRequest: `except <C> as xv` *)
  f_noreply : list text;          (* `if not isinstance(xv, ...)` *)
  f_reply_if : list text;         (* `isinstance(xv, A) or ...` *)
  f_reply_unless : list text;     (* `... or not isinstance(xv, B)` *)
  f_reraise : list text;          (* `if isCallback or isinstance(xv, (...)): raise` *)
  f_reraise_guarded : bool;       (* that statement sits inside the `if not isinstance(xv, <f_noreply>)` block *)
  f_batch_catch : text;           (* batch loop: `except <C> as xv` *)
  f_batch_tb : bool;              (* xv._pyroTraceback = ... in the batch handler *)
  f_send_sets_tb : bool;          (* exc_value._pyroTraceback = tbinfo *)
  f_fallback : bool;              (* try/except around serializer.dumps(exc_value) *)
  f_fallback_catch : list text;
  f_fallback_class : text;
  f_fallback_tb : bool;
  f_client_release : list text    (* Proxy._pyroInvoke: `except (...)`: release and re-raise *)
}.

(* handler structure of the tree as of this writing (for the _refuted witnesses) *)
Definition facts_today : facts := {|
  f_catch := c_Exception; f_noreply := [c_ConnectionClosedError]; f_reply_if := [c_SerializeError];
  f_reply_unless := [c_CommunicationError]; f_reraise := [c_CommunicationError; c_SecurityError];
  f_reraise_guarded := false;
  f_batch_catch := c_Exception; f_batch_tb := true; f_send_sets_tb := true; f_fallback := true;
  f_fallback_catch := [c_Exception]; f_fallback_class := c_PyroError; f_fallback_tb := true;
  f_client_release := [c_CommunicationError; c_KeyboardInterrupt] |}.

Record quirks := { q_marshal_none_kwargs : bool; q_marshal_shallow : bool }.
Definition quirks_none : quirks := {| q_marshal_none_kwargs := false; q_marshal_shallow := false |}.

Inductive ser := Serpent | Marshal | Json | Msgpack.
Definition is_marshal (s : ser) : bool := match s with Marshal => true | _ => false end.
Inductive kind := KPlain | KAttr | KStream | KBatch (before : list xval).

(* ---------------------------------------------------------------- server side *)
Inductive action := Escape | ReplyKeep | ReplyClose | NoReplyClose | NoReplyKeep.

Definition route (F : facts) (c : cinfo) : action :=
  if negb (isa c (f_catch F)) then Escape
  else
    let reply := negb (isa_any c (f_noreply F)) &&
                 (isa_any c (f_reply_if F) || negb (isa_any c (f_reply_unless F))) in
    let close := isa_any c (f_reraise F) &&
                 (negb (f_reraise_guarded F) || negb (isa_any c (f_noreply F))) in
    match reply, close with
    | true, false => ReplyKeep
    | true, true => ReplyClose
    | false, true => NoReplyClose
    | false, false => NoReplyKeep
    end.

Definition opt_entry (T : tables) (k : text) (v : xval) : list (text * xval) :=
  if mem k (t_ctd_keys T) then [(k, v)] else [].
Definition class_to_dict (T : tables) (e : exc) : xval :=
  XDict (opt_entry T k_class (XStr (qname (e_cls e))) ++ opt_entry T k_exception (XBool true) ++
         opt_entry T k_args (XList (e_args e)) ++ opt_entry T k_attributes (XDict (e_attrs e))).
Definition with_tb (e : exc) (tbv : xval) : exc :=
  {| e_cls := e_cls e; e_args := e_args e; e_attrs := set_attr k_traceback tbv (e_attrs e) |}.
Definition wrap (v : xval) : xval := XDict [(k_class, XStr wrapper_class); (k_wrapped, v)].

(* class of the error a failing dumps raises (library / class_to_dict behaviour) *)
Definition dumps_fail_class (s : ser) : text :=
  match s with Serpent => c_TypeError | Marshal => c_ValueError | Json | Msgpack => c_SerializeError end.

(* ---------------------------------------------------------------- client side *)
Inductive decision := DMake (qn : text) | DFail (cls : text).

Fixpoint lookup (k : text) (l : list (text * text)) : option text :=
  match l with
  | [] => None
  | (a, b) :: l' => if text_eqb k a then Some b else lookup k l'
  end.

Definition decide (T : tables) (classname : text) (is_exc : bool) : decision :=
  if t_dunder_refused T && contains dunder classname then DFail c_SecurityError
  else if starts errors_prefix classname then
    let short := skipn (List.length errors_prefix) classname in
    if mem short (t_errors_pyro T) then DMake classname else DFail c_AttributeError
  else if is_exc then
    match (if t_uses_all_exceptions T then lookup classname (t_all_keys T) else None) with
    | Some qn => DMake qn
    | None =>
      match split_dot classname with
      | None => DFail c_ValueError
      | Some (ns, short) =>
        if mem ns (t_builtin_namespaces T) then
          if mem short (t_builtins_exc T) then
            DMake (builtins_prefix ++ match lookup short (t_alias T) with Some n => n | None => short end)
          else DFail c_AttributeError
        else DFail c_SerializeError
      end
    end
  else DFail c_SerializeError.

Inductive cobj := CExc (qn : text) (args : list xval) (attrs : list (text * xval)) | CFail (cls : text).

Section Client.
  Variable T : tables.
  Variable ctor : text -> list xval -> option (list xval).   (* cls( *args).args, None = constructor raises *)

  Definition make_exception (qn : text) (d : list (text * xval)) : cobj :=
    match assoc k_args d with
    | Some (XList a) =>
      match ctor qn a with
      | None => CFail c_TypeError
      | Some a' =>
        match assoc k_attributes d with
        | Some (XDict at_) => CExc qn a' (if t_restores_attrs T then at_ else [])
        | Some _ => CFail c_AttributeError
        | None => CExc qn a' []
        end
      end
    | Some _ => CFail c_TypeError
    | None => CFail c_KeyError
    end.

  Definition dict_to_class (d : list (text * xval)) : cobj :=
    let classname := match assoc k_class d with Some (XStr s) => s | _ => unknown_class end in
    let is_exc := match assoc k_exception d with Some (XBool true) => true | _ => false end in
    match decide T classname is_exc with
    | DMake qn => make_exception qn d
    | DFail c => CFail c
    end.

  (* one element of a batch reply after class recreation *)
  Inductive item := IVal | IWrap (qn : text) (args : list xval) (attrs : list (text * xval)) | IBad (cls : text).
  Definition has_class (d : list (text * xval)) : bool :=
    match assoc k_class d with Some _ => true | None => false end.
  Definition decode_item (v : xval) : item :=
    match v with
    | XDict d =>
      if has_class d then
        match assoc k_class d with
        | Some (XStr s) =>
          if text_eqb s wrapper_class then
            match assoc k_wrapped d with
            | Some (XDict d2) =>
              if has_class d2 then
                match dict_to_class d2 with CExc q a at_ => IWrap q a at_ | CFail c => IBad c end
              else IVal
            | Some _ => IVal
            | None => IBad c_KeyError
            end
          else match dict_to_class d with CExc _ _ _ => IVal | CFail c => IBad c end
        | _ => match dict_to_class d with CExc _ _ _ => IVal | CFail c => IBad c end
        end
      else IVal
    | _ => IVal
    end.
  Fixpoint first_bad (l : list item) : option text :=
    match l with
    | [] => None
    | IBad c :: _ => Some c
    | _ :: l' => first_bad l'
    end.
  (* BatchProxy.__resultsgenerator: values are yielded until a wrapper is met *)
  Fixpoint until_wrap (l : list item) (n : nat) : nat * option (text * list xval * list (text * xval)) :=
    match l with
    | [] => (n, None)
    | IWrap q a at_ :: _ => (n, Some (q, a, at_))
    | _ :: l' => until_wrap l' (S n)
    end.
End Client.

Definition find_class (T : tables) (qn : text) : cinfo :=
  match find (fun c => text_eqb (qname c) qn) (t_classes T) with
  | Some c => c
  | None => {| c_name := qn; c_mod := []; c_mro := [qn] |}
  end.

(* the first unserialisable object met in a value: Some None = a bare object, Some (Some c) = an
   object whose serialisation raises class c *)
Fixpoint bad_of (v : xval) : option (option cinfo) :=
  match v with
  | XOpaque => Some None
  | XBadObj c => Some (Some c)
  | XList l => (fix go (l : list xval) : option (option cinfo) :=
                  match l with [] => None | x :: l' => match bad_of x with Some b => Some b | None => go l' end end) l
  | XDict d => (fix go (l : list (text * xval)) : option (option cinfo) :=
                  match l with [] => None | (_, x) :: l' => match bad_of x with Some b => Some b | None => go l' end end) d
  | _ => None
  end.

(* ---------------------------------------------------------------- the whole call *)
Inductive outcome :=
| ORaised (qn : text) (args : list xval) (attrs : list (text * xval))  (* the decoded remote exception *)
| OFallback (cls : text) (orig : text) (has_tb : bool)   (* generic error describing the original class *)
| OSerErr (cls : text)        (* the remote serializer's own error arrives instead (batch path) *)
| OClientErr (cls : text)     (* raised locally while decoding / re-raising; no remote traceback *)
| OConnLost                   (* no reply, connection closed: ConnectionClosedError *)
| OHang                       (* no reply and the connection stays open: the caller blocks (until its timeout, if it has one) *)
| OLocalErr (cls : text)      (* raised before anything was sent *)
| OReturned.                  (* no exception at all *)

Record conn := { server_open : bool; client_conn : bool }.
Definition conn_ok : conn := {| server_open := true; client_conn := true |}.
(* the next call works unless the client still holds a connection the server has closed *)
Definition usable (c : conn) : bool := implb (client_conn c) (server_open c).

Record result := { r_before : nat; r_out : outcome; r_conn : conn }.

Section Call.
  Variable Q : quirks.
  Variable T : tables.
  Variable F : facts.
  Variable codec : ser -> xval -> option xval.
  Variable serr : ser -> xval -> cinfo.     (* class of the error dumps raises when codec gives None *)
  Variable ctor : text -> list xval -> option (list xval).

  (* does the client release its connection when this class is raised inside _pyroInvoke? *)
  Definition releases (qn : text) : bool := isa_any (find_class T qn) (f_client_release F).
  Definition mk (n : nat) (o : outcome) (srv cli : bool) : result :=
    (* a client that releases its connection closes it: the server side follows *)
    {| r_before := n; r_out := o; r_conn := {| server_open := srv && cli; client_conn := cli |} |}.

  Definition lost : result := mk 0 OConnLost false (negb (releases c_ConnectionClosedError)).

  (* what _sendExceptionResponse puts on the wire *)
  Inductive payload := PExc (v : xval) | PFallback | PNone.
  Definition exc_payload (s : ser) (e : exc) (tbv : xval) : payload :=
    let e' := if f_send_sets_tb F then with_tb e tbv else e in
    match codec s (class_to_dict T e') with
    | Some v => PExc v
    | None =>
      (* the fallback runs only for the classes its `except` names; otherwise the error leaves the handler *)
      if f_fallback F && isa_any (serr s (class_to_dict T e')) (f_fallback_catch F) then PFallback else PNone
    end.

  (* plain call, attribute access, stream item: the exception reaches handleRequest's handler *)
  Definition single (s : ser) (e : exc) (tbv : xval) : result :=
    match route F (e_cls e) with
    | Escape | NoReplyClose => lost
    | NoReplyKeep => mk 0 OHang true (negb (releases c_TimeoutError))
    | (ReplyKeep | ReplyClose) as a =>
      let srv := match a with ReplyKeep => true | _ => false end in
      match exc_payload s e tbv with
      | PNone => lost
      | PFallback => mk 0 (OFallback (f_fallback_class F) (qname (e_cls e)) (f_fallback_tb F)) srv
                        (negb (releases (f_fallback_class F)))
      | PExc (XDict d) =>
        match dict_to_class T ctor d with
        | CExc qn a at_ => mk 0 (ORaised qn a at_) srv (negb (releases qn))
        | CFail c => mk 0 (OClientErr c) srv (negb (releases c))
        end
      | PExc _ => mk 0 (OClientErr c_TypeError) srv true
      end
    end.

  (* the serializer's own error goes through the same handler *)
  Definition ser_error (fci : cinfo) : result :=
    (* the error is itself sent as an exception reply and has to pass the receiver's whitelist *)
    let arrives (srv : bool) : result :=
      match decide T (qname fci) true with
      | DMake q => mk 0 (OSerErr q) srv (negb (releases q))
      | DFail c => mk 0 (OClientErr c) srv (negb (releases c))
      end in
    match route F fci with
    | Escape | NoReplyClose => lost
    | NoReplyKeep => mk 0 OHang true (negb (releases c_TimeoutError))
    | ReplyKeep => arrives true
    | ReplyClose => arrives false
    end.

  Definition batch (s : ser) (before : list xval) (e : exc) (tbv : xval) : result :=
    if negb (isa (e_cls e) (f_batch_catch F)) then single s e tbv
    else
      let e' := if f_batch_tb F then with_tb e tbv else e in
      let data := XList (before ++ [wrap (class_to_dict T e')]) in
      match (if is_marshal s && q_marshal_shallow Q then None else codec s data) with
      | None => ser_error (serr s data)
      | Some (XList items) =>
        let its := map (decode_item T ctor) items in
        match first_bad its with
        | Some c => mk 0 (OClientErr c) true (negb (releases c))
        | None =>
          match until_wrap its 0 with
          | (n, Some (qn, a, at_)) =>
            (* raised inside a generator: PEP 479 turns StopIteration into RuntimeError *)
            if isa (find_class T qn) c_StopIteration then mk n (OClientErr c_RuntimeError) true true
            else mk n (ORaised qn a at_) true true
          | (n, None) => mk n OReturned true true
          end
        end
      | Some _ => mk 0 OReturned true true
      end.

  Definition run (s : ser) (k : kind) (e : exc) (tbv : xval) : result :=
    match k with
    | KPlain | KStream => single s e tbv
    | KAttr => if is_marshal s && q_marshal_none_kwargs Q then mk 0 (OLocalErr c_AttributeError) true true
               else single s e tbv
    | KBatch before => if is_marshal s && q_marshal_none_kwargs Q then mk 0 (OLocalErr c_AttributeError) true true
                       else batch s before e tbv
    end.
End Call.

(* the library behaviour used by the correspondence harness, and the constructor oracle *)
Definition std_codec (_ : ser) (v : xval) : option xval := if plain v then Some v else None.
Definition std_serr (T : tables) (s : ser) (v : xval) : cinfo :=
  match bad_of v with
  | Some (Some c) => c
  | _ => find_class T (dumps_fail_class s)
  end.
Definition std_ctor (_ : text) (a : list xval) : option (list xval) := Some a.

(* computable well-formedness of the generated tables, used as a theorem hypothesis *)
Definition wf_tables (T : tables) : bool :=
  mem k_class (t_ctd_keys T) && mem k_exception (t_ctd_keys T) && mem k_args (t_ctd_keys T) &&
  mem k_attributes (t_ctd_keys T) && t_restores_attrs T.
