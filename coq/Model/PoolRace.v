(* C18 — the racing-closer configuration: Pool.close() is called from ANOTHER thread (as
   Daemon.shutdown does) while the accept loop is still submitting connections.
   Same primitives and the same step functions as Model/Pool.v; the closer is a second
   "main-like" thread with its own program counter record.  Definitions only.

   Threads: 0 = accept loop (submits njobs connections, never closes: do_close c = false),
            1 = closer (runs Pool.close once), S (S i) = Worker i.
   Both non-worker threads use lock owner id 0 in the model state; who of the two is inside
   a region is told by their program counters. *)
From Coq Require Import List Arith Bool.
Import ListNotations.
From V Require Import Model.Pool.

Record rst := mk_rst { base : st; kl : main }.

(* the state as the closer sees it: its own record in the place of the accept loop's *)
Definition kview (r : rst) : st := set_main (base r) (kl r).

Definition accept_step (c : cfg) (ch : nat) (r : rst) : option rst :=
  match main_step c ch (base r) with Some s' => Some (mk_rst s' (kl r)) | None => None end.
Definition closer_step (c : cfg) (ch : nat) (r : rst) : option rst :=
  match main_step c ch (kview r) with
  | Some s' => Some (mk_rst (set_main s' (mn (base r))) (mn s'))
  | None => None
  end.
Definition rworker_step (c : cfg) (i : nat) (r : rst) : option rst :=
  match worker_step c i (base r) with Some s' => Some (mk_rst s' (kl r)) | None => None end.

Definition rstep_opt (c : cfg) (t ch : nat) (r : rst) : option rst :=
  match t with
  | 0 => accept_step c ch r
  | 1 => closer_step c ch r
  | S (S i) => if Nat.ltb i (nw (base r)) then rworker_step c i r else None
  end.
Definition rstep (c : cfg) (tc : nat * nat) (r : rst) : rst :=
  match rstep_opt c (fst tc) (snd tc) r with Some r' => r' | None => r end.
Definition rrun (c : cfg) (sched : list (nat * nat)) (r : rst) : rst := fold_left (fun r tc => rstep c tc r) sched r.

Definition closer0 : main := mk_main CClosedRd 0 0 0 [].
Definition rinit (c : cfg) : rst := mk_rst (init c) closer0.

Definition rcode_of (t : nat) (r : rst) : nat :=
  match t with
  | 0 => mcode (m_pc (mn (base r)))
  | 1 => mcode (m_pc (kl r))
  | S (S i) => wcode (w_pc (ws (base r) i))
  end.
Fixpoint rtrace (c : cfg) (sched : list (nat * nat)) (r : rst) : list nat :=
  match sched with
  | [] => []
  | tc :: rest =>
      match rstep_opt c (fst tc) (snd tc) r with
      | Some r' => rcode_of (fst tc) r :: rtrace c rest r'
      | None => 0 :: rtrace c rest r
      end
  end.
