(* Bytes, big-endian fixed-width integers, and the checksum used by the
   correspondence runner.  Definitions only. *)
From Coq Require Import List NArith Arith Bool.
Import ListNotations.
Local Open Scope N_scope.

Definition byte := N.
Definition bytes := list N.

Definition is_byte (b : N) : bool := b <? 256.
Definition wf_bytes (b : bytes) : bool := forallb is_byte b.

(* struct "!H" and "!I" *)
Definition be16 (n : N) : bytes := [n / 256 mod 256; n mod 256].
Definition be32 (n : N) : bytes :=
  [n / 256 / 256 / 256 mod 256; n / 256 / 256 mod 256; n / 256 mod 256; n mod 256].
Definition of_be16 (b1 b0 : N) : N := b1 * 256 + b0.
Definition of_be32 (b3 b2 b1 b0 : N) : N := ((b3 * 256 + b2) * 256 + b1) * 256 + b0.

(* int.from_bytes(slice, "big") on a slice of any length *)
Definition from_be (bs : bytes) : N := fold_left (fun acc b => acc * 256 + b) bs 0.

Fixpoint bytes_eqb (a b : bytes) : bool :=
  match a, b with
  | [], [] => true
  | x :: a', y :: b' => (x =? y) && bytes_eqb a' b'
  | _, _ => false
  end.

Definition Nlen {A} (l : list A) : N := N.of_nat (length l).
Definition takeN {A} (n : N) (l : list A) : list A := firstn (N.to_nat n) l.
Definition dropN {A} (n : N) (l : list A) : list A := skipn (N.to_nat n) l.

(* order-sensitive checksum: (length, 40-bit polynomial hash); mask instead of mod
   because binary [N.land] is much cheaper than [N.modulo] under vm_compute *)
Definition cksum_mask : N := 1099511627775.
Definition cksum (b : bytes) : N * N :=
  (Nlen b, fold_left (fun acc x => N.land (N.shiftl acc 8 + acc + x + 1) cksum_mask) b 0).

(* deterministic pattern stream shared with the python harness:
   byte i = (c + a * i) land 255 *)
Fixpoint pattern_from (a cur : N) (len : nat) : bytes :=
  match len with
  | O => []
  | S len' => N.land cur 255 :: pattern_from a (cur + a) len'
  end.
Definition pattern (a c : N) (len : N) : bytes := pattern_from a c (N.to_nat len).
