(* C11 — executable model of batched calls (Pyro5/server.py handleRequest, `<batch>`
   branch; Pyro5/core.py _ExceptionWrapper; Pyro5/client.py BatchProxy.__call__ /
   __resultsgenerator / Proxy._pyroInvokeBatch).  Definitions only.

   The remote object is an arbitrary deterministic state machine
        step : state -> call -> state * (Ok v | Exc e)
   and the exposure gate (server._get_attribute) an arbitrary function
        gate : state -> call -> option exn          (Some e = refused with e).
   Both are Section variables, so every definition and theorem is generic in the
   object; the accumulator object the harness drives is one instance (end of file). *)
From Coq Require Import List ZArith Bool.
Import ListNotations.

Section Batch.
  Variables state call value exn : Type.
  Variable gate : state -> call -> option exn.

  Inductive outcome := Ok (v : value) | Exc (e : exn).
  Variable step : state -> call -> state * outcome.

  (* ---- the same calls made one after another through a plain proxy -------------
     r_log  : the calls whose method body was actually invoked, in order
     r_outs : what the caller saw, call by call; he stops at the first exception *)
  Record run := { r_state : state; r_log : list call; r_outs : list outcome }.

  Fixpoint run_seq (calls : list call) (s : state) : run :=
    match calls with
    | [] => {| r_state := s; r_log := []; r_outs := [] |}
    | c :: rest =>
      match gate s c with
      | Some e => {| r_state := s; r_log := []; r_outs := [Exc e] |}        (* refused: not executed *)
      | None =>
        match step s c with
        | (s', Ok v) => let r := run_seq rest s' in
                        {| r_state := r_state r; r_log := c :: r_log r; r_outs := Ok v :: r_outs r |}
        | (s', Exc e) => {| r_state := s'; r_log := [c]; r_outs := [Exc e] |}
        end
      end
    end.

  (* ---- server side of a batch request ------------------------------------------
     `data` entries: a plain result or an _ExceptionWrapper.  The request is answered
     either with the data list (MSG_RESULT, FLAGS_BATCH) or — when an exception leaves
     the for-loop, which is what a refusal by _get_attribute does — with an exception
     response for the whole request.  [brk] = the handler ends in `break`
     (regenerated from the source: Gen/GenBatch.v loop_breaks). *)
  Inductive item := IVal (v : value) | IWrap (e : exn).
  Inductive reply := RResults (l : list item) | RError (e : exn).
  Record srv := { sv_state : state; sv_log : list call; sv_reply : reply }.

  Definition cons_item (it : item) (c : call) (r : srv) : srv :=
    {| sv_state := sv_state r; sv_log := c :: sv_log r;
       sv_reply := match sv_reply r with RResults l => RResults (it :: l) | RError e => RError e end |}.

  Fixpoint server_loop (brk : bool) (calls : list call) (s : state) : srv :=
    match calls with
    | [] => {| sv_state := s; sv_log := []; sv_reply := RResults [] |}
    | c :: rest =>
      match gate s c with
      | Some e => {| sv_state := s; sv_log := []; sv_reply := RError e |}
      | None =>
        match step s c with
        | (s', Ok v) => cons_item (IVal v) c (server_loop brk rest s')
        | (s', Exc e) =>
          if brk then {| sv_state := s'; sv_log := [c]; sv_reply := RResults [IWrap e] |}
          else cons_item (IWrap e) c (server_loop brk rest s')
        end
      end
    end.

  (* ---- client side ---------------------------------------------------------------
     oneway: nothing comes back (no reply is sent, not even an error reply).
     otherwise: an exception response is raised by the submitting call itself; a result
     list is replayed by __resultsgenerator, which re-raises the first wrapper it meets. *)
  Inductive client_obs := CNothing | CRaised (e : exn) | CStream (outs : list outcome).

  Fixpoint results_generator (l : list item) : list outcome :=
    match l with
    | [] => []
    | IVal v :: l' => Ok v :: results_generator l'
    | IWrap e :: _ => [Exc e]
    end.

  Definition client_view (oneway : bool) (r : reply) : client_obs :=
    if oneway then CNothing
    else match r with RError e => CRaised e | RResults l => CStream (results_generator l) end.

  Record batch_run := { b_state : state; b_log : list call; b_obs : client_obs }.

  Definition run_batch (brk oneway : bool) (calls : list call) (s : state) : batch_run :=
    let r := server_loop brk calls s in
    {| b_state := sv_state r; b_log := sv_log r; b_obs := client_view oneway (sv_reply r) |}.

  (* defective variant (finding marshal-batch): serialising the request fails on the
     client, nothing is sent, the submitting call raises — in oneway mode too *)
  Definition run_batch_submit_fails (e : exn) (calls : list call) (s : state) : batch_run :=
    {| b_state := s; b_log := []; b_obs := CRaised e |}.

  (* ---- a BatchProxy that is re-used: the client-side object as a state machine -------
     The BatchProxy holds a queue of calls.  Events of a history:
       EvQueue c        a call is queued (b.method(args))
       EvSubmit oneway  the queue is submitted (b() / b(oneway=True) / b._pyroInvoke)
       EvIterate k n    the caller pulls (up to) n items out of the result generator that the
                       k-th submission of this history returned (immediately, late, partially
                       — or never, if no such event occurs); pulling results touches neither
                       the queue nor the remote object.
     The queue is emptied by a submission.  [keep]: the defective variant (finding
     reuse-after-failed-submit) keeps the queue when the submitting call raises, so the next
     submission sends the old calls again. *)
  Inductive event := EvQueue (c : call) | EvSubmit (oneway : bool) | EvIterate (k n : nat).
  Inductive hitem := HQueued | HSub (calls : list call) (b : batch_run) | HIter (outs : list outcome).

  Definition stream_of (o : client_obs) : list outcome := match o with CStream l => l | _ => [] end.
  Definition raised (o : client_obs) : bool := match o with CRaised _ => true | _ => false end.

  Fixpoint run_history (brk keep : bool) (evs : list event) (s : state) (queue : list call)
           (subs : list (list outcome)) : list hitem * state :=
    match evs with
    | [] => ([], s)
    | EvQueue c :: r =>
      let (t, s') := run_history brk keep r s (queue ++ [c]) subs in (HQueued :: t, s')
    | EvSubmit ow :: r =>
      let b := run_batch brk ow queue s in
      let (t, s') := run_history brk keep r (b_state b)
                                 (if raised (b_obs b) && keep then queue else [])
                                 (subs ++ [stream_of (b_obs b)]) in
      (HSub queue b :: t, s')
    | EvIterate k n :: r =>
      let (t, s') := run_history brk keep r s queue subs in (HIter (firstn n (nth k subs [])) :: t, s')
    end.

  (* the specification of a history: every submission is exactly the calls queued since the
     previous submission, made one by one on the object as the previous submissions left it;
     pulling from the k-th submission's results gives the first items of that sequential run
     (nothing for a oneway submission or one that was refused at submission) *)
  Inductive sitem := SQueued | SSub (calls : list call) (oneway : bool) (q : run) | SIter (outs : list outcome).
  Definition seq_refused (q : run) : bool := Nat.ltb (length (r_log q)) (length (r_outs q)).

  Fixpoint spec_history (evs : list event) (s : state) (pending : list call)
           (subs : list (list outcome)) : list sitem * state :=
    match evs with
    | [] => ([], s)
    | EvQueue c :: r =>
      let (t, s') := spec_history r s (pending ++ [c]) subs in (SQueued :: t, s')
    | EvSubmit ow :: r =>
      let q := run_seq pending s in
      let (t, s') := spec_history r (r_state q) []
                                  (subs ++ [if ow || seq_refused q then [] else r_outs q]) in
      (SSub pending ow q :: t, s')
    | EvIterate k n :: r =>
      let (t, s') := spec_history r s pending subs in (SIter (firstn n (nth k subs [])) :: t, s')
    end.
End Batch.

Arguments Ok {value exn}.
Arguments Exc {value exn}.
Arguments IVal {value exn}.
Arguments IWrap {value exn}.
Arguments RResults {value exn}.
Arguments RError {value exn}.
Arguments CNothing {value exn}.
Arguments CRaised {value exn}.
Arguments CStream {value exn}.
Arguments r_state {state call value exn}.
Arguments r_log {state call value exn}.
Arguments r_outs {state call value exn}.
Arguments sv_state {state call value exn}.
Arguments sv_log {state call value exn}.
Arguments sv_reply {state call value exn}.
Arguments b_state {state call value exn}.
Arguments b_log {state call value exn}.
Arguments b_obs {state call value exn}.
Arguments run_seq {state call value exn}.
Arguments server_loop {state call value exn}.
Arguments results_generator {value exn}.
Arguments client_view {value exn}.
Arguments run_batch {state call value exn}.
Arguments run_batch_submit_fails {state call value exn}.
Arguments cons_item {state call value exn}.
Arguments EvQueue {call}.
Arguments EvSubmit {call}.
Arguments EvIterate {call}.
Arguments HQueued {state call value exn}.
Arguments HSub {state call value exn}.
Arguments HIter {state call value exn}.
Arguments SQueued {state call value exn}.
Arguments SSub {state call value exn}.
Arguments SIter {state call value exn}.
Arguments stream_of {value exn}.
Arguments raised {value exn}.
Arguments seq_refused {state call value exn}.
Arguments run_history {state call value exn}.
Arguments spec_history {state call value exn}.

(* ---- the reference object of the harness: an accumulator -------------------------
   state = the running total.  Methods (tools/harness/C11.py class Acc):
     add k   total += k                         -> total
     mul k   total = total * k mod 1000003      -> total
     get     (no change)                        -> total
     sub k   ValueError(total, k) if total-k<0 else total -= k -> total   (state-dependent failure)
     div k   ZeroDivisionError if k = 0 else total //= k -> total
     boom k  total += k, then RuntimeError(total)                       (changes state, then raises)
   refused by the gate: hidden (not exposed), _secret (private), __init__ (reserved
   dunder), nosuch / "add.__call__" (getattr fails). *)
Local Open Scope Z_scope.

Inductive meth := MAdd | MMul | MGet | MSub | MDiv | MBoom
                | MHidden | MSecret | MDunder | MNoSuch | MDotted
                (* exposed special methods: __len__ -> |total| mod 7 + 1, __getitem__ k -> total + k (no change);
                   gated k = add k after waiting (bounded) on an event: the wait is invisible to the model *)
                | MLen | MGetItem | MGated
                (* double-underscore names refused by the gate: __secret (private), __hidden__ (exists, not
                   exposed), __del__ (reserved dunder, private) *)
                | MDSecret | MDHidden | MDDel
                (* lasterr k: SUCCEEDS and returns an exception object ValueError(total, k) as its value *)
                | MLastErr.
Record acall := { c_meth : meth; c_arg : Z }.

(* exception classes as the caller tells them apart, with their integer arguments *)
Inductive why := WPrivate | WUnexposed | WMissing.
Inductive aexn := EValue (total k : Z) | EZeroDiv | ERuntime (total : Z) | EAttr (w : why)
                | ESubmit.   (* client-side failure of the submission itself (defective variant only) *)

(* results: integers, or an exception object handed out as an ordinary value (returned, not raised) *)
Inductive aval := VInt (z : Z) | VExc (e : aexn).
Coercion VInt : Z >-> aval.

Definition acc_modulus : Z := 1000003.

Definition acc_gate (s : Z) (c : acall) : option aexn :=
  match c_meth c with
  | MSecret | MDunder | MDSecret | MDDel => Some (EAttr WPrivate)
  | MHidden | MDHidden => Some (EAttr WUnexposed)
  | MNoSuch | MDotted => Some (EAttr WMissing)
  | _ => None
  end.

Definition OkI (z : Z) : outcome aval aexn := Ok (VInt z).
Definition acc_step (s : Z) (c : acall) : Z * outcome aval aexn :=
  let k := c_arg c in
  match c_meth c with
  | MAdd => (s + k, OkI (s + k))
  | MMul => ((s * k) mod acc_modulus, OkI ((s * k) mod acc_modulus))
  | MGet => (s, OkI s)
  | MSub => if s - k <? 0 then (s, Exc (EValue s k)) else (s - k, OkI (s - k))
  | MDiv => if k =? 0 then (s, Exc EZeroDiv) else (s / k, OkI (s / k))
  | MBoom => (s + k, Exc (ERuntime (s + k)))
  | MLen => (s, OkI (Z.abs s mod 7 + 1))
  | MGetItem => (s, OkI (s + k))
  | MGated => (s + k, OkI (s + k))
  | MLastErr => (s, Ok (VExc (EValue s k)))
  | MHidden | MSecret | MDunder | MNoSuch | MDotted | MDSecret | MDHidden | MDDel =>
      (s, Exc (EAttr WMissing))   (* never reached: refused by the gate *)
  end.

Definition acc_seq := run_seq acc_gate acc_step.
Definition acc_batch (brk oneway : bool) := run_batch acc_gate acc_step brk oneway.
Definition acc_history (brk keep : bool) := run_history acc_gate acc_step brk keep.
Definition acc_spec_history := spec_history acc_gate acc_step.
