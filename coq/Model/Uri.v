(* C19 — executable model of Pyro5.core.URI: the parser (uriRegEx + _parseLocation + int()),
   the text form (location / __str__), equality and hashing over the state tuple.
   Definitions only.  Text is [list N] of code points.

   The regular expressions are modelled by hand-written matchers with the semantics of
     uriRegEx : protocol = PYRO in any letter case followed by ASCII letters, ":", object = lazy \S+?,
                optionally "@" and location = .+ , then $      (source text: modelled_uri_regex below)
     ipv6     : "[" , one or more of 0-9a-fA-F:% , "]" , optionally ":" and \d+ ; prefix match
                (source text: modelled_ipv6_regex below)
   (Props/C19.v re-checks on every run that these are the patterns found in the source).
   The Unicode-dependent character classes (\S, \d, what int() strips / reads) are parameters
   [tables], instantiated with Gen/GenUri.v. *)
From Coq Require Import List NArith ZArith Bool Decimal DecimalZ Permutation.
Import ListNotations.
Local Open Scope N_scope.

Definition text := list N.

Record tables := { t_ws : list N;      (* str.isspace / \s *)
                   t_intws : list N;   (* skipped by int() at both ends *)
                   t_dzero : list N }. (* zero of each block of ten decimal digits *)

(* known deviations of the code from the property, each a switch (DESIGN section 5) *)
Record quirks := { q_empty_host : bool;        (* location printed only when host is truthy *)
                   q_meta_unhashable : bool }. (* hash of a PYROMETA uri raises TypeError *)
Definition quirks_none := {| q_empty_host := false; q_meta_unhashable := false |}.

Definition memN (c : N) (l : list N) : bool := existsb (N.eqb c) l.
Definition is_nil {A} (l : list A) : bool := match l with [] => true | _ => false end.

Fixpoint text_eqb (a b : text) : bool :=
  match a, b with
  | [], [] => true
  | x :: a', y :: b' => (x =? y) && text_eqb a' b'
  | _, _ => false
  end.

Fixpoint starts_with (p s : text) : bool :=
  match p, s with
  | [], _ => true
  | x :: p', y :: s' => (x =? y) && starts_with p' s'
  | _ :: _, [] => false
  end.

Fixpoint span (f : N -> bool) (s : text) : text * text :=
  match s with
  | c :: s' => if f c then let (a, b) := span f s' in (c :: a, b) else ([], s)
  | [] => ([], [])
  end.

(* ---------- character classes ---------- *)
Definition is_ws (T : tables) (c : N) : bool := memN c (t_ws T).
Definition is_intws (T : tables) (c : N) : bool := memN c (t_intws T).
Fixpoint digit_val_in (zs : list N) (c : N) : option N :=
  match zs with
  | [] => None
  | z :: zs' => if (z <=? c) && (c <? z + 10) then Some (c - z) else digit_val_in zs' c
  end.
Definition digit_val (T : tables) (c : N) : option N := digit_val_in (t_dzero T) c.
Definition is_digit (T : tables) (c : N) : bool :=
  match digit_val T c with Some _ => true | None => false end.
Definition is_letter (c : N) : bool := ((65 <=? c) && (c <=? 90)) || ((97 <=? c) && (c <=? 122)).
Definition upper (c : N) : N := if (97 <=? c) && (c <=? 122) then c - 32 else c.
(* [0-9a-fA-F:%] *)
Definition is_hexcolon (c : N) : bool :=
  ((48 <=? c) && (c <=? 57)) || ((65 <=? c) && (c <=? 70)) || ((97 <=? c) && (c <=? 102)) || (c =? 58) || (c =? 37).

(* ---------- int(): surrounding whitespace, sign, digits with single underscores, any decimal digits ---------- *)
Definition digit_of_N (v : N) (d : uint) : uint :=
  match v with
  | 0 => D0 d | 1 => D1 d | 2 => D2 d | 3 => D3 d | 4 => D4 d
  | 5 => D5 d | 6 => D6 d | 7 => D7 d | 8 => D8 d | _ => D9 d
  end.

Fixpoint scan_digits (T : tables) (s : text) (prev_digit : bool) : option uint :=
  match s with
  | [] => if prev_digit then Some Nil else None
  | c :: s' =>
    if c =? 95 then (if prev_digit then scan_digits T s' false else None)
    else match digit_val T c with
         | Some v => match scan_digits T s' true with Some d => Some (digit_of_N v d) | None => None end
         | None => None
         end
  end.

Fixpoint dropws (T : tables) (s : text) : text :=
  match s with
  | c :: s' => if is_intws T c then dropws T s' else s
  | [] => []
  end.
Definition strip (T : tables) (s : text) : text := List.rev (dropws T (List.rev (dropws T s))).

Definition int_of_text (T : tables) (s : text) : option Z :=
  let s := strip T s in
  let '(neg, body) := match s with
                      | c :: b => if c =? 45 then (true, b) else if c =? 43 then (false, b) else (false, s)
                      | [] => (false, s)
                      end in
  match scan_digits T body false with
  | Some d => Some (if neg then Z.opp (Z.of_uint d) else Z.of_uint d)
  | None => None
  end.

(* "%d" % port *)
Fixpoint digits (d : uint) : text :=
  match d with
  | Nil => []
  | D0 d => 48 :: digits d | D1 d => 49 :: digits d | D2 d => 50 :: digits d | D3 d => 51 :: digits d
  | D4 d => 52 :: digits d | D5 d => 53 :: digits d | D6 d => 54 :: digits d | D7 d => 55 :: digits d
  | D8 d => 56 :: digits d | D9 d => 57 :: digits d
  end.
Definition text_of_Z (z : Z) : text :=
  match Z.to_int z with Decimal.Pos d => digits d | Decimal.Neg d => 45 :: digits d end.

(* ---------- the URI value (= the state tuple protocol, object, sockname, host, port) ---------- *)
Inductive proto := PYRO | PYRONAME | PYROMETA.
Inductive uobj := OName (n : text) | OTags (l : list text).   (* str, or a set of tags *)
(* (sockname, host, port) is (None,None,None), (s,None,None) or (None,h,p) *)
Inductive uloc := LNone | LSock (n : text) | LHost (h : text) (p : Z).
Record uri := { u_proto : proto; u_obj : uobj; u_loc : uloc }.

(* ---------- _parseLocation ---------- *)
(* location.partition(":") -> (host, port text) *)
Definition partition_colon (s : text) : text * text :=
  let (a, b) := span (fun c => negb (c =? 58)) s in (a, tl b).

(* re.match(ipv6 pattern, "[" ++ s): (host, port text); port text [] when the optional group is absent *)
Definition ipv6_match (T : tables) (s : text) : option (text * text) :=
  let (h, r) := span is_hexcolon s in
  if is_nil h then None else
  match r with
  | c :: r' =>
    if c =? 93 then
      match r' with
      | c2 :: r'' => if c2 =? 58 then let (ds, _) := span (is_digit T) r'' in Some (h, ds) else Some (h, [])
      | [] => Some (h, [])
      end
    else None
  | [] => None
  end.

Definition sock_prefix : text := [46; 47; 117; 58].   (* "./u:" *)

Definition parse_loc (T : tables) (loc : text) (defport : option Z) : option uloc :=
  if starts_with sock_prefix loc then
    let sn := skipn 4 loc in
    if is_nil sn || memN 58 sn then None else Some (LSock sn)
  else
    let hp := if starts_with [91] loc then
                if starts_with [91; 91] loc then None else ipv6_match T (tl loc)
              else Some (partition_colon loc) in
    match hp with
    | None => None
    | Some (h, ptxt) =>
      if is_nil ptxt then match defport with Some d => Some (LHost h d) | None => None end
      else match int_of_text T ptxt with Some z => Some (LHost h z) | None => None end
    end.

(* ---------- uriRegEx ---------- *)
(* `$` also matches before one final newline *)
Fixpoint strip_nl (r : text) : text :=
  match r with
  | [] => []
  | c :: r' => match r' with
               | [] => if c =? 10 then [] else [c]
               | _ :: _ => c :: strip_nl r'
               end
  end.

(* lazy \S+? followed by (@(.+))?$ on a newline-free remainder; called after the first object character:
   the object ends at the first '@' that has something behind it, or at the end of the text *)
Fixpoint split_rest (T : tables) (r : text) : option (text * option text) :=
  match r with
  | [] => Some ([], None)
  | c :: r' =>
    if (c =? 64) && negb (is_nil r') then Some ([], Some r')
    else if is_ws T c then None
    else match split_rest T r' with Some (o, l) => Some (c :: o, l) | None => None end
  end.
Definition split_obj (T : tables) (r : text) : option (text * option text) :=
  match r with
  | [] => None
  | c :: r' => if is_ws T c then None
               else match split_rest T r' with Some (o, l) => Some (c :: o, l) | None => None end
  end.

Definition t_PYRO : text := [80; 89; 82; 79].
Definition t_PYRONAME : text := [80; 89; 82; 79; 78; 65; 77; 69].
Definition t_PYROMETA : text := [80; 89; 82; 79; 77; 69; 84; 65].
Definition proto_of_upper (u : text) : option proto :=
  if text_eqb u t_PYRO then Some PYRO
  else if text_eqb u t_PYRONAME then Some PYRONAME
  else if text_eqb u t_PYROMETA then Some PYROMETA
  else None.
Definition proto_text (p : proto) : text :=
  match p with PYRO => t_PYRO | PYRONAME => t_PYRONAME | PYROMETA => t_PYROMETA end.

(* object.split(",") ; the m.strip() of the code is the identity on pieces of a \S+ match *)
Fixpoint split_comma (s : text) : list text :=
  match s with
  | [] => [[]]
  | c :: s' => if c =? 44 then [] :: split_comma s'
               else match split_comma s' with
                    | t :: ts => (c :: t) :: ts
                    | [] => [[c]]
                    end
  end.
Definition text_dec : forall a b : text, {a = b} + {a <> b} := list_eq_dec N.eq_dec.
Definition tagset (s : text) : list text := nodup text_dec (split_comma s).

Definition parse (T : tables) (ns_port : Z) (s : text) : option uri :=
  let (letters, rest) := span is_letter s in
  match rest with
  | c :: r =>
    if negb (c =? 58) then None else
    match proto_of_upper (map upper letters) with
    | None => None
    | Some p =>
      let r0 := strip_nl r in
      if memN 10 r0 then None else
      match split_obj T r0 with
      | None => None
      | Some (o, loc) =>
        let obj := match p with PYROMETA => OTags (tagset o) | _ => OName o end in
        let L := match loc with
                 | None => match p with PYRO => None | _ => Some LNone end
                 | Some l => parse_loc T l (match p with PYRO => None | _ => Some ns_port end)
                 end in
        match L with
        | Some L => Some {| u_proto := p; u_obj := obj; u_loc := L |}
        | None => None
        end
      end
    end
  | [] => None
  end.

(* ---------- location / __str__ ---------- *)
Fixpoint join_comma (l : list text) : text :=
  match l with
  | [] => []
  | t :: l' => match l' with [] => t | _ :: _ => t ++ 44 :: join_comma l' end
  end.

Definition loc_text (q : quirks) (L : uloc) : option text :=
  match L with
  | LNone => None
  | LSock n => if is_nil n then None else Some (sock_prefix ++ n)
  | LHost h p => if q_empty_host q && is_nil h then None
                 else Some ((if memN 58 h then 91 :: h ++ [93] else h) ++ 58 :: text_of_Z p)
  end.

Definition obj_text (o : uobj) : text :=
  match o with OName n => n | OTags l => join_comma l end.   (* ",".join(set): in the order of the list *)

Definition print (q : quirks) (u : uri) : text :=
  proto_text (u_proto u) ++ 58 :: obj_text (u_obj u) ++
  match loc_text q (u_loc u) with Some l => 64 :: l | None => [] end.

(* the same uri with its tag set iterated in another order *)
Definition with_tags (u : uri) (l : list text) : uri :=
  {| u_proto := u_proto u; u_obj := OTags l; u_loc := u_loc u |}.

(* the same uri with its tag set listed in another order (a Python set has no order) *)
Definition reordering (u u' : uri) : Prop :=
  match u_obj u with
  | OName _ => u' = u
  | OTags l => exists l', Permutation l' l /\ u' = with_tags u l'
  end.

(* the URIs outside the three recorded open findings: host "./u"; tag set {""}; a tag containing '@' *)
Definition dot_slash_u : text := [46; 47; 117].
Definition regular_loc (L : uloc) : Prop :=
  match L with LHost h _ => h <> dot_slash_u | _ => True end.
Definition regular (u : uri) : Prop :=
  regular_loc (u_loc u) /\
  match u_obj u with
  | OTags l => l <> [[]] /\ (forall t, In t l -> ~ In 64 t)
  | OName _ => True
  end.

(* ---------- __eq__ : equality of the state tuples (str = str, set = set, int = int) ---------- *)
Definition mem_text (t : text) (l : list text) : bool := existsb (text_eqb t) l.
Definition incl_b (a b : list text) : bool := forallb (fun t => mem_text t b) a.
Definition proto_eqb (a b : proto) : bool :=
  match a, b with PYRO, PYRO | PYRONAME, PYRONAME | PYROMETA, PYROMETA => true | _, _ => false end.
Definition obj_eqb (a b : uobj) : bool :=
  match a, b with
  | OName x, OName y => text_eqb x y
  | OTags x, OTags y => incl_b x y && incl_b y x
  | _, _ => false
  end.
Definition loc_eqb (a b : uloc) : bool :=
  match a, b with
  | LNone, LNone => true
  | LSock x, LSock y => text_eqb x y
  | LHost h p, LHost h' p' => text_eqb h h' && Z.eqb p p'
  | _, _ => false
  end.
Definition uri_eqb (u v : uri) : bool :=
  proto_eqb (u_proto u) (u_proto v) && obj_eqb (u_obj u) (u_obj v) && loc_eqb (u_loc u) (u_loc v).

Definition obj_eq (a b : uobj) : Prop :=
  match a, b with
  | OName x, OName y => x = y
  | OTags x, OTags y => forall t, In t x <-> In t y
  | _, _ => False
  end.
Definition uri_eq (u v : uri) : Prop :=
  u_proto u = u_proto v /\ obj_eq (u_obj u) (u_obj v) /\ u_loc u = u_loc v.

(* ---------- __hash__ : hash of the state tuple.  [h] is the hash of a str (arbitrary); the hash of a
   (frozen)set is an order-independent combination of its elements' hashes; the tuple hash is a function of
   (protocol, hash of object, sockname, host, port).  None = TypeError (a plain set is unhashable). ---------- *)
Definition hash_key (q : quirks) (h : text -> N) (u : uri) : option (proto * N * uloc) :=
  match u_obj u with
  | OName n => Some (u_proto u, h n, u_loc u)
  | OTags l => if q_meta_unhashable q then None
               else Some (u_proto u, fold_right (fun t acc => N.lxor (h t) acc) 0 (nodup text_dec l), u_loc u)
  end.

(* ---------- field-wise equality / hashing: which positions of the state tuple __eq__ compares and __hash__
   covers is regenerated from the source (GenUri.eq_fields / hash_fields) ---------- *)
Inductive field := FProto | FObj | FSock | FHost | FPort.
Definition all_fields : list field := [FProto; FObj; FSock; FHost; FPort].
Definition field_of_code (c : N) : option field :=
  if c =? 0 then Some FProto else if c =? 1 then Some FObj else if c =? 2 then Some FSock
  else if c =? 3 then Some FHost else if c =? 4 then Some FPort else None.
Fixpoint fields_of_codes (l : list N) : list field :=
  match l with
  | [] => []
  | c :: l' => match field_of_code c with Some f => f :: fields_of_codes l' | None => fields_of_codes l' end
  end.
Definition field_beq (a b : field) : bool :=
  match a, b with
  | FProto, FProto | FObj, FObj | FSock, FSock | FHost, FHost | FPort, FPort => true
  | _, _ => false
  end.
Definition mem_field (f : field) (fs : list field) : bool := existsb (field_beq f) fs.
Definition covers (fs : list field) : bool := forallb (fun f => mem_field f fs) all_fields.
Definition fields_incl (a b : list field) : bool := forallb (fun f => mem_field f b) a.

Definition sock_of (L : uloc) : option text := match L with LSock n => Some n | _ => None end.
Definition host_of (L : uloc) : option text := match L with LHost h _ => Some h | _ => None end.
Definition port_of (L : uloc) : option Z := match L with LHost _ p => Some p | _ => None end.
Definition opt_text_eqb (a b : option text) : bool :=
  match a, b with None, None => true | Some x, Some y => text_eqb x y | _, _ => false end.
Definition opt_Z_eqb (a b : option Z) : bool :=
  match a, b with None, None => true | Some x, Some y => Z.eqb x y | _, _ => false end.

Definition field_eqb (f : field) (u v : uri) : bool :=
  match f with
  | FProto => proto_eqb (u_proto u) (u_proto v)
  | FObj => obj_eqb (u_obj u) (u_obj v)
  | FSock => opt_text_eqb (sock_of (u_loc u)) (sock_of (u_loc v))
  | FHost => opt_text_eqb (host_of (u_loc u)) (host_of (u_loc v))
  | FPort => opt_Z_eqb (port_of (u_loc u)) (port_of (u_loc v))
  end.
(* __eq__ when it compares exactly the fields [fs] *)
Definition uri_eqb_on (fs : list field) (u v : uri) : bool := forallb (fun f => field_eqb f u v) fs.

Inductive fkey := KProto (p : proto) | KHash (n : N) | KOptText (o : option text) | KOptZ (o : option Z).
Definition field_key (q : quirks) (h : text -> N) (f : field) (u : uri) : option fkey :=
  match f with
  | FProto => Some (KProto (u_proto u))
  | FObj => match u_obj u with
            | OName n => Some (KHash (h n))
            | OTags l => if q_meta_unhashable q then None
                         else Some (KHash (fold_right (fun t acc => N.lxor (h t) acc) 0 (nodup text_dec l)))
            end
  | FSock => Some (KOptText (sock_of (u_loc u)))
  | FHost => Some (KOptText (host_of (u_loc u)))
  | FPort => Some (KOptZ (port_of (u_loc u)))
  end.
(* __hash__ when it hashes the tuple of the fields [fs]; None = TypeError *)
Fixpoint hash_key_on (q : quirks) (h : text -> N) (fs : list field) (u : uri) : option (list fkey) :=
  match fs with
  | [] => Some []
  | f :: fs' => match field_key q h f u, hash_key_on q h fs' u with
                | Some k, Some ks => Some (k :: ks)
                | _, _ => None
                end
  end.

(* ---------- transport by state: __getstate__ / __setstate__ (what the serializers carry for a URI) ---------- *)
Definition state := (proto * uobj * option text * option text * option Z)%type.
Definition to_state (u : uri) : state :=
  (u_proto u, u_obj u, sock_of (u_loc u), host_of (u_loc u), port_of (u_loc u)).
Definition of_state (st : state) : option uri :=
  let '(p, o, s, h, pt) := st in
  match s, h, pt with
  | None, None, None => Some {| u_proto := p; u_obj := o; u_loc := LNone |}
  | Some n, None, None => Some {| u_proto := p; u_obj := o; u_loc := LSock n |}
  | None, Some h, Some z => Some {| u_proto := p; u_obj := o; u_loc := LHost h z |}
  | _, _, _ => None
  end.

(* ---------- the name server as a store of URI texts: NameServer.register / lookup / remove / list / yplookup
   over any storage backend (a map name -> (uri text, tagged?)); register validates with URI() and stores the text,
   lookup re-parses the stored text ---------- *)
Definition store := list (text * (text * bool)).
Fixpoint st_get (s : store) (k : text) : option (text * bool) :=
  match s with
  | [] => None
  | (k', v) :: s' => if text_eqb k k' then Some v else st_get s' k
  end.
Fixpoint st_del (s : store) (k : text) : store :=
  match s with
  | [] => []
  | (k', v) :: s' => if text_eqb k k' then st_del s' k else (k', v) :: st_del s' k
  end.
(* overwrite: the old entry (if any) goes, the new one is the only entry for k *)
Definition st_set (s : store) (k : text) (v : text * bool) : store := (k, v) :: st_del s k.

Inductive sop :=
| SReg (name uritext : text) (tagged validate : bool)
     (* register(name, uri, safe=False, metadata={"m"} if tagged); validate = given as a string, which register checks with
        URI(); a URI object is stored as its text form without a check *)
| SRefused (name uritext : text)                (* a register call the implementation refused with PyroError: nothing stored
                                                  (whether it had to refuse is not the model's business, see Harness/H19.v) *)
| SDel (name : text)                           (* remove(name) *)
| SLookup (name : text)                        (* lookup(name) *)
| SList                                        (* list() *)
| SYp                                          (* yplookup(meta_any={"m"}) *)
| SReopen.                                     (* close the store, open it again (persistent backends) *)
Inductive sobs :=
| ORegOk | ORegRejected                        (* PyroError from URI(uri) *)
| ODel (n : N)
| OLookup (u : option uri)                     (* None = NamingError *)
| OLookupBad                                   (* the stored text is rejected by URI(): PyroError *)
| OListing (l : list (text * text))            (* name, uri text *)
| ONone.

Definition ns_step (T : tables) (ns_port : Z) (s : store) (op : sop) : store * sobs :=
  match op with
  | SReg name t tagged validate =>
    if validate && negb (match parse T ns_port t with Some _ => true | None => false end) then (s, ORegRejected)
    else (st_set s name (t, tagged), ORegOk)
  | SRefused _ _ => (s, ORegRejected)
  | SDel name => match st_get s name with Some _ => (st_del s name, ODel 1) | None => (s, ODel 0) end
  | SLookup name => (s, match st_get s name with
                        | Some (t, _) => match parse T ns_port t with Some u => OLookup (Some u) | None => OLookupBad end
                        | None => OLookup None
                        end)
  | SList => (s, OListing (map (fun e => (fst e, fst (snd e))) s))
  | SYp => (s, OListing (map (fun e => (fst e, fst (snd e))) (filter (fun e => snd (snd e)) s)))
  | SReopen => (s, ONone)
  end.
Fixpoint ns_run (T : tables) (ns_port : Z) (s : store) (ops : list sop) : list sobs :=
  match ops with
  | [] => []
  | op :: ops' => let (s', o) := ns_step T ns_port s op in o :: ns_run T ns_port s' ops'
  end.

(* ---------- what the table-dependent proofs need of the tables (a computed check) ---------- *)
Definition ascii_digits : list N := [48; 49; 50; 51; 52; 53; 54; 55; 56; 57].
Definition tables_ok (T : tables) : bool :=
  is_ws T 10 && negb (is_ws T 44) && negb (is_digit T 45) &&
  forallb (fun c => negb (is_intws T c)) (45 :: ascii_digits) &&
  forallb (fun c => match digit_val T c with Some v => v =? c - 48 | None => false end) ascii_digits.

(* the patterns this model implements *)
Definition modelled_uri_regex : text :=
  [40;63;80;60;112;114;111;116;111;99;111;108;62;91;80;112;93;91;89;121;93;91;82;114;93;91;79;111;93;
   91;97;45;122;65;45;90;93;42;41;58;40;63;80;60;111;98;106;101;99;116;62;92;83;43;63;41;40;64;40;63;80;
   60;108;111;99;97;116;105;111;110;62;46;43;41;41;63;36].
Definition modelled_ipv6_regex : text :=
  [92;91;40;91;48;45;57;97;45;102;65;45;70;58;37;93;43;41;93;40;58;40;92;100;43;41;41;63].
