(* C06 — model of Pyro5.protocol: SendingMessage.__init__, ReceivingMessage.__init__,
   add_payload and recv_stub.  Definitions only.  The constants (message/flag values,
   protocol version, magic, header layout, compression threshold) come from
   Gen/GenProtocol.v, regenerated from protocol.py on every run. *)
From Coq Require Import List NArith Arith Bool.
Import ListNotations.
From V Require Import Model.Bytes Gen.GenProtocol.
Local Open Scope N_scope.

Inductive werr :=
| EProtocol     (* errors.ProtocolError *)
| EStruct       (* struct.error: a field does not fit its width *)
| EUnicode      (* UnicodeEncodeError / UnicodeDecodeError: annotation id not ascii *)
| EAssert       (* AssertionError: annotation chunks do not tile *)
| EZlib         (* zlib.error *)
| EClosed.      (* ConnectionClosedError: stream ended *)

Inductive result (A : Type) := Ok (a : A) | Err (e : werr).
Arguments Ok {A} a.
Arguments Err {A} e.

Record wcfg := { max_size : N; compression : bool }.

(* ------------------------------------------------------------ sender *)
Record smsg := { s_type : N; s_flags : N; s_seq : N; s_ser : N; s_payload : bytes;
                 s_anns : list (bytes * bytes);    (* key code points, value bytes; a python dict: keys distinct *)
                 s_corr : option bytes }.          (* 16 bytes of the context's correlation uuid *)

Definition ann_size (anns : list (bytes * bytes)) : N :=
  fold_right (fun kv acc => 8 + Nlen (snd kv) + acc) 0 anns.

Definition zero16 : bytes := repeat 0 16.

Definition fits8 (n : N) : bool := n <? 256.
Definition fits16 (n : N) : bool := n <? 65536.
Definition fits32 (n : N) : bool := n <? 4294967296.

Definition tag_PYRO : bytes := [80; 89; 82; 79].

Definition header (typ ser flags seq plen alen : N) (corr : bytes) : bytes :=
  tag_PYRO ++ be16 protocol_version ++ [typ; ser] ++ be16 flags ++ be16 seq ++
  be32 plen ++ be32 alen ++ corr ++ be16 0 ++ be16 magic_number.

Definition is_ascii (k : bytes) : bool := forallb (fun c => c <? 128) k.

Fixpoint ann_chunks (anns : list (bytes * bytes)) : result bytes :=
  match anns with
  | [] => Ok []
  | (k, v) :: rest =>
      if negb (Nlen k =? 4) then Err EProtocol
      else if negb (is_ascii k) then Err EUnicode
      else match ann_chunks rest with
           | Ok bs => Ok (k ++ be32 (Nlen v) ++ v ++ bs)
           | Err e => Err e
           end
  end.

(* [z] is zlib.compress(payload, 4) — an oracle, only consulted when compression applies *)
Definition encode (c : wcfg) (m : smsg) (z : bytes) : result bytes :=
  let asz := ann_size (s_anns m) in
  let flags0 := N.ldiff (s_flags m) flag_compressed in
  let compress := compression c && (compress_threshold <? Nlen (s_payload m)) in
  let payload := if compress then z else s_payload m in
  let flags1 := if compress then N.lor flags0 flag_compressed else flags0 in
  if max_size c <? Nlen payload + asz then Err EProtocol
  else
    let flags2 := match s_corr m with Some _ => N.lor flags1 flag_corr_id | None => flags1 end in
    let corr := match s_corr m with Some cid => cid | None => zero16 end in
    if negb (fits8 (s_type m) && fits8 (s_ser m) && fits16 flags2 && fits16 (s_seq m)
             && fits32 (Nlen payload) && fits32 asz)
    then Err EStruct
    else match ann_chunks (s_anns m) with
         | Err e => Err e
         | Ok chunks => Ok (header (s_type m) (s_ser m) flags2 (s_seq m) (Nlen payload) asz corr ++ chunks ++ payload)
         end.

(* ------------------------------------------------------------ receiver *)
Record rmsg := { r_type : N; r_flags : N; r_seq : N; r_ser : N; r_data : bytes;
                 r_anns : list (bytes * bytes);   (* dict in insertion order, last value wins *)
                 r_corr : bytes }.

Record hdr := { h_tag : bytes; h_ver : N; h_type : N; h_ser : N; h_flags : N; h_seq : N;
                h_dsize : N; h_asize : N; h_corr : bytes; h_magic : N }.

Definition sub (off len : nat) (b : bytes) : bytes := firstn len (skipn off b).

(* struct.unpack('!4sHBBHHII16sHH', h) on exactly 40 bytes *)
Definition parse_header (h : bytes) : hdr :=
  {| h_tag := sub 0 4 h; h_ver := from_be (sub 4 2 h); h_type := from_be (sub 6 1 h);
     h_ser := from_be (sub 7 1 h); h_flags := from_be (sub 8 2 h); h_seq := from_be (sub 10 2 h);
     h_dsize := from_be (sub 12 4 h); h_asize := from_be (sub 16 4 h); h_corr := sub 20 16 h;
     h_magic := from_be (sub 38 2 h) |}.

Fixpoint dict_set (d : list (bytes * bytes)) (k v : bytes) : list (bytes * bytes) :=
  match d with
  | [] => [(k, v)]
  | (k', v') :: d' => if bytes_eqb k' k then (k', v) :: d' else (k', v') :: dict_set d' k v
  end.

(* the annotation walk of add_payload; [p] is the payload from offset i on, [left] is
   annotations_size - i > 0.  Recursion is on [fuel] (the payload itself is passed:
   every iteration advances by at least 8 bytes). *)
Fixpoint ann_walk (fuel : bytes) (p : bytes) (left : N) (acc : list (bytes * bytes))
  : result (list (bytes * bytes) * bytes) :=
  match fuel with
  | [] => Err EAssert
  | _ :: fuel' =>
      let id := firstn 4 p in
      if negb (is_ascii id) then Err EUnicode
      else
        let len := from_be (sub 4 4 p) in
        let v := takeN len (skipn 8 p) in
        let step := 8 + len in
        if left <? step then Err EAssert
        else if left =? step then Ok (dict_set acc id v, dropN step p)
        else ann_walk fuel' (dropN step p) (left - step) (dict_set acc id v)
  end.

(* [unz] : result of zlib.decompress on this message's data, consulted only when the
   COMPRESSED flag is set *)
Definition add_payload (h : hdr) (payload : bytes) (unz : option bytes) : result rmsg :=
  if negb (Nlen payload =? h_dsize h + h_asize h) then Err EProtocol
  else
    let walked :=
      if h_asize h =? 0 then Ok ([], payload)
      else ann_walk payload payload (h_asize h) [] in
    match walked with
    | Err e => Err e
    | Ok (anns, data) =>
        if negb (N.land (h_flags h) flag_compressed =? 0) then
          match unz with
          | None => Err EZlib
          | Some d => Ok {| r_type := h_type h; r_flags := N.ldiff (h_flags h) flag_compressed;
                            r_seq := h_seq h; r_ser := h_ser h; r_data := d; r_anns := anns;
                            r_corr := h_corr h |}
          end
        else Ok {| r_type := h_type h; r_flags := h_flags h; r_seq := h_seq h; r_ser := h_ser h;
                   r_data := data; r_anns := anns; r_corr := h_corr h |}
    end.

(* connection.recv(n) on a stream that ends after [stream] *)
Definition recv_n (n : N) (stream : bytes) : option (bytes * bytes) :=
  if n <=? Nlen stream then Some (takeN n stream, dropN n stream) else None.

Definition check_header (c : wcfg) (h : hdr) : bool :=
  bytes_eqb (h_tag h) tag_PYRO && (h_ver h =? protocol_version) && (h_magic h =? magic_number).

(* returns the result and the number of bytes taken from the stream *)
Definition recv_stub (c : wcfg) (accepted : option (list N)) (unz : option bytes) (stream : bytes)
  : result rmsg * N :=
  match recv_n 6 stream with
  | None => (Err EClosed, Nlen stream)
  | Some (h6, s1) =>
      (* ReceivingMessage.validate on the 6-byte prefix *)
      if negb (bytes_eqb (sub 0 4 h6) tag_PYRO) then (Err EProtocol, 6)
      else if negb (bytes_eqb (sub 4 2 h6) (be16 protocol_version)) then (Err EProtocol, 6)
      else
        match recv_n (header_size - 6) s1 with
        | None => (Err EClosed, Nlen stream)
        | Some (h34, s2) =>
            let h := parse_header (h6 ++ h34) in
            if negb (check_header c h) then (Err EProtocol, header_size)
            else if max_size c <? h_dsize h + h_asize h then (Err EProtocol, header_size)
            else if match accepted with
                    | Some ((_ :: _) as l) => negb (existsb (N.eqb (h_type h)) l)
                    | _ => false
                    end then (Err EProtocol, header_size)
            else
              match recv_n (h_asize h + h_dsize h) s2 with
              | None => (Err EClosed, Nlen stream)
              | Some (payload, _) =>
                  (add_payload h payload unz, header_size + h_asize h + h_dsize h)
              end
        end
  end.
