(* C10 — item streams (remote iterators): executable model, definitions only.

   Server side (Pyro5/server.py): Daemon.streaming_responses is a table
       stream id -> (owning connection | None, creation stamp, linger stamp (0 = not lingering), iterator)
   changed by _streamResponse (Open), DaemonObject.get_next_stream_item (Next), close_stream
   (CloseStream), Daemon._clientDisconnect (Disconnect), Daemon._housekeeping (Housekeep); the clock
   (time.time as seen by the daemon) only moves at Tick.  The iterator is its list of remaining
   items [Yield v | Raise e].  Stream ids are numbered in order of creation (uuid4 in the code).

   Client side (Pyro5/client.py): proxies with a connection and a sequence counter, and
   _StreamResultIterator objects (proxy or None, stream id, own sequence counter); [cstep] turns one
   client operation into the server events it causes and maps the answers.  The correspondence
   harness runs [cstep]; every server effect in it goes through [step]. *)
From Coq Require Import List NArith Bool.
Import ListNotations.
Local Open Scope N_scope.

Inductive item := Yield (v : N) | Raise (e : N).
Definition conn := N.
Definition sid := N.

Record config := { streaming : bool; lifetime : N; linger : N;
                   lifetime_strict : bool;    (* expiry test is  lifetime <  age   (else <=)  — generated from the source *)
                   linger_strict : bool }.    (* expiry test is  gone     >  linger (else >=) — generated from the source *)

Record stream := { owner : option conn; created : N; linger_since : N; rest : list item }.
Definition table := list (sid * stream).
Record state := { now : N; next_id : sid; tbl : table }.

Inductive event :=
| Open (c : conn) (items : list item)
| Next (c : conn) (id : sid)
| CloseStream (c : conn) (id : sid)
| Disconnect (c : conn)
| Housekeep
| Tick (dt : N).

Inductive response :=
| ROpened (id : sid) | RNoStreaming | RItem (v : N) | RStop | RRaised (e : N) | RError | RNone.

Fixpoint lookup (id : sid) (t : table) : option stream :=
  match t with
  | [] => None
  | (k, s) :: t' => if k =? id then Some s else lookup id t'
  end.
Fixpoint remove (id : sid) (t : table) : table :=
  match t with
  | [] => []
  | (k, s) :: t' => if k =? id then remove id t' else (k, s) :: remove id t'
  end.
Fixpoint update (id : sid) (s' : stream) (t : table) : table :=
  match t with
  | [] => []
  | (k, s) :: t' => if k =? id then (k, s') :: t' else (k, s) :: update id s' t'
  end.

Definition set_tbl (st : state) (t : table) : state := {| now := now st; next_id := next_id st; tbl := t |}.

Definition owned_by (c : conn) (s : stream) : bool :=
  match owner s with Some c' => c' =? c | None => false end.

(* limit exceeded by period:  limit < period  (strict)  or  limit <= period *)
Definition exceeded (strict : bool) (limit period : N) : bool :=
  if strict then limit <? period else limit <=? period.

Definition lifetime_over (cfg : config) (t : N) (s : stream) : bool :=
  (0 <? lifetime cfg) && exceeded (lifetime_strict cfg) (lifetime cfg) (t - created s).
Definition linger_over (cfg : config) (t : N) (s : stream) : bool :=
  (0 <? linger cfg) && negb (linger_since s =? 0) && exceeded (linger_strict cfg) (linger cfg) (t - linger_since s).
Definition expired (cfg : config) (t : N) (s : stream) : bool := lifetime_over cfg t s || linger_over cfg t s.

Definition disconnect_stream (cfg : config) (t : N) (c : conn) (s : stream) : stream :=
  if owned_by c s then {| owner := None; created := created s; linger_since := t; rest := rest s |} else s.

(* get_next_stream_item re-associates a stream whose owner is None with the asking connection *)
Definition reown (c : conn) (s : stream) : stream :=
  match owner s with
  | None => {| owner := Some c; created := created s; linger_since := 0; rest := rest s |}
  | Some _ => s
  end.

Definition step (cfg : config) (st : state) (ev : event) : state * response :=
  match ev with
  | Open c items =>
      let id := next_id st in
      if streaming cfg
      then ({| now := now st; next_id := id + 1;
               tbl := tbl st ++ [(id, {| owner := Some c; created := now st; linger_since := 0; rest := items |})] |}, ROpened id)
      else ({| now := now st; next_id := id + 1; tbl := tbl st |}, RNoStreaming)
  | Next c id =>
      match lookup id (tbl st) with
      | None => (st, RError)
      | Some s =>
          let s1 := reown c s in
          match rest s1 with
          | [] => (set_tbl st (remove id (tbl st)), RStop)
          | Yield v :: r =>
              (set_tbl st (update id {| owner := owner s1; created := created s1; linger_since := linger_since s1; rest := r |} (tbl st)), RItem v)
          | Raise e :: _ => (set_tbl st (remove id (tbl st)), RRaised e)
          end
      end
  | CloseStream _ id => (set_tbl st (remove id (tbl st)), RNone)
  | Disconnect c =>
      if 0 <? linger cfg
      then (set_tbl st (map (fun kv => (fst kv, disconnect_stream cfg (now st) c (snd kv))) (tbl st)), RNone)
      else (set_tbl st (filter (fun kv => negb (owned_by c (snd kv))) (tbl st)), RNone)
  | Housekeep =>
      (set_tbl st (filter (fun kv => negb (expired cfg (now st) (snd kv))) (tbl st)), RNone)
  | Tick dt => ({| now := now st + dt; next_id := next_id st; tbl := tbl st |}, RNone)
  end.

(* a history: the list of (event, answer) pairs, oldest first *)
Definition trace := list (event * response).
Fixpoint run (cfg : config) (st : state) (evs : list event) : state * trace :=
  match evs with
  | [] => (st, [])
  | ev :: evs' =>
      let '(st1, r) := step cfg st ev in
      let '(st2, tr) := run cfg st1 evs' in
      (st2, (ev, r) :: tr)
  end.

Definition init (t0 : N) : state := {| now := t0; next_id := 0; tbl := [] |}.

(* ---- reading a history ---- *)
(* the items of stream [id] as given at its Open, counting Opens from [n] *)
Fixpoint source_from (n : sid) (evs : list event) (id : sid) : option (list item) :=
  match evs with
  | [] => None
  | Open _ items :: evs' => if n =? id then Some items else source_from (n + 1) evs' id
  | _ :: evs' => source_from n evs' id
  end.
(* values delivered for stream [id], oldest first *)
Fixpoint delivered (tr : trace) (id : sid) : list N :=
  match tr with
  | [] => []
  | (Next _ k, RItem v) :: tr' => if k =? id then v :: delivered tr' id else delivered tr' id
  | _ :: tr' => delivered tr' id
  end.
Definition yields (vs : list N) : list item := map Yield vs.

(* the stream was ended for its clients: exhausted / failed / reported gone / closed *)
Definition finishes (id : sid) (er : event * response) : bool :=
  match er with
  | (Next _ k, RStop) | (Next _ k, RRaised _) | (Next _ k, RError) => k =? id
  | (CloseStream _ k, _) => k =? id
  | _ => false
  end.
Definition finished (tr : trace) (id : sid) : bool := existsb (finishes id) tr.

(* does the event address stream id? *)
Definition touches (id : sid) (ev : event) : bool :=
  match ev with Next _ k | CloseStream _ k => k =? id | _ => false end.
Definition ticks (evs : list event) : N :=
  fold_right (fun ev acc => match ev with Tick dt => dt + acc | _ => acc end) 0 evs.
(* "within the limit" as the complement of [exceeded] *)
Definition within (strict : bool) (limit period : N) : bool := negb (exceeded strict limit period).

(* well-formed histories: a stream id is only named once it exists (ids are unguessable uuids) *)
Fixpoint wf_from (n : sid) (evs : list event) : bool :=
  match evs with
  | [] => true
  | Open _ _ :: evs' => wf_from (n + 1) evs'
  | Next _ k :: evs' | CloseStream _ k :: evs' => (k <? n) && wf_from n evs'
  | _ :: evs' => wf_from n evs'
  end.

(* ---- inside _clientDisconnect: micro-steps ----
   The daemon's disconnect handling is a loop over the stream ids; each iteration re-reads the entry and, if it
   is still there and owned by the ending connection, marks it lingering (linger > 0) or deletes it.  Other daemon
   threads (the oneway close_stream thread, another connection's worker exhausting a stream, the housekeeper)
   can remove entries between two iterations.  [MVisit c id] is one loop iteration, [MRemove id] a removal. *)
Definition disc_visit (cfg : config) (nw : N) (c : conn) (id : sid) (t : table) : table :=
  match lookup id t with
  | Some s => if owned_by c s
              then (if 0 <? linger cfg then update id (disconnect_stream cfg nw c s) t else remove id t)
              else t
  | None => t
  end.
Inductive micro := MVisit (c : conn) (id : sid) | MRemove (id : sid).
Definition micro_step (cfg : config) (nw : N) (t : table) (m : micro) : table :=
  match m with MVisit c id => disc_visit cfg nw c id t | MRemove id => remove id t end.
Definition micro_run (cfg : config) (nw : N) (t : table) (ms : list micro) : table :=
  fold_left (micro_step cfg nw) ms t.

(* The same loop with the iteration split where the source splits it: [M2Read c id] re-reads the entry (and keeps
   it if it is owned by c), [M2Write c id] writes the kept entry back as lingering (linger > 0) or deletes it.
   Another thread can get in between the two. *)
Fixpoint upsert (id : sid) (s : stream) (t : table) : table :=
  match t with
  | [] => [(id, s)]
  | (k, x) :: t' => if k =? id then (k, s) :: t'
                    else if id <? k then (id, s) :: (k, x) :: t' else (k, x) :: upsert id s t'
  end.
Inductive micro2 := M2Read (c : conn) (id : sid) | M2Write (c : conn) (id : sid) | M2Remove (id : sid).
Definition pending := list ((conn * sid) * stream).
Definition pend_eqb (a b : conn * sid) : bool := (fst a =? fst b) && (snd a =? snd b).
Fixpoint pend_get (k : conn * sid) (p : pending) : option stream :=
  match p with [] => None | (k', s) :: p' => if pend_eqb k' k then Some s else pend_get k p' end.
Definition pend_del (k : conn * sid) (p : pending) : pending := filter (fun e => negb (pend_eqb (fst e) k)) p.
Definition micro2_step (cfg : config) (nw : N) (st : table * pending) (m : micro2) : table * pending :=
  let '(t, p) := st in
  match m with
  | M2Read c id =>
      match lookup id t with
      | Some s => if owned_by c s then (t, ((c, id), s) :: pend_del (c, id) p) else (t, pend_del (c, id) p)
      | None => (t, pend_del (c, id) p)
      end
  | M2Write c id =>
      match pend_get (c, id) p with
      | Some s => (if 0 <? linger cfg then upsert id (disconnect_stream cfg nw c s) t else remove id t, pend_del (c, id) p)
      | None => (t, p)
      end
  | M2Remove id => (remove id t, p)
  end.
Definition micro2_run (cfg : config) (nw : N) (t : table) (ms : list micro2) : table :=
  fst (fold_left (micro2_step cfg nw) ms (t, [])).

(* ---------------------------------------------------------------- client side *)
(* A proxy has a connection (or none) and a sequence counter.  A _StreamResultIterator is the state
   machine {proxy reference | dropped (None); stream id; own sequence counter}: client.py keeps no other
   "ended" flag — the iterator has ended for good exactly when its proxy reference is dropped, which
   happens in close() and in the except-clause of __next__.  Which answers make __next__ drop the
   reference is the [cpolicy], generated from the except-clause in the source (Gen/GenStreams.v). *)
Record proxy := { p_conn : option conn; p_seq : N }.
Record citer := { ci_proxy : option N; ci_sid : sid; ci_seq : N }.
Record cstate := { srv : state; next_conn : conn; proxies : list proxy; iters : list citer }.

Record cpolicy := { drop_stop : bool;      (* StopIteration from the server *)
                    drop_raised : bool;    (* an exception raised by the server-side iterator *)
                    drop_error : bool;     (* PyroError "item stream terminated" *)
                    drop_comm : bool }.    (* CommunicationError inside _pyroInvoke *)

(* a transport failure in the middle of a next(): the request never reaches the daemon, or the daemon
   handles it and the reply is lost; either way _pyroInvoke raises a CommunicationError and releases
   the proxy's connection *)
Inductive fault := ReqLost | ReplyLost.

Inductive cop :=
| COpen (p : N) (items : list item)
| CNext (h : N)
| CNextFault (h : N) (f : fault)
| CClose (h : N)
| CRelease (p : N)
| CReconnect (p : N)
| CRawNext (p : N) (id : sid)
| CRawClose (p : N) (id : sid)
| CHousekeep
| CTick (dt : N).

(* CCommErr carries, as a ghost the client cannot see, the answer that was lost in transit (if any) *)
Inductive cresp :=
| COpened (id : sid) | CNoStreaming | CItem (v : N) | CStop | CRaised (e : N) | CError | CClosedLocal
| CCommErr (lost : option response) | CNone.

Fixpoint set_nth {A} (n : nat) (x : A) (l : list A) : list A :=
  match l, n with
  | [], _ => []
  | _ :: l', O => x :: l'
  | y :: l', S n' => y :: set_nth n' x l'
  end.
Definition nthN {A} (l : list A) (n : N) : option A := nth_error l (N.to_nat n).
Definition setN {A} (l : list A) (n : N) (x : A) : list A := set_nth (N.to_nat n) x l.

Definition cinit (t0 : N) (nprox : N) : cstate :=
  {| srv := init t0; next_conn := 0; proxies := repeat {| p_conn := None; p_seq := 0 |} (N.to_nat nprox); iters := [] |}.

(* new client state, the client's answer, and the server events (with their answers) it caused *)
Definition cresult := (cstate * cresp * trace)%type.

Definition with_srv (cs : cstate) (s : state) : cstate :=
  {| srv := s; next_conn := next_conn cs; proxies := proxies cs; iters := iters cs |}.
Definition with_proxy (cs : cstate) (p : N) (x : proxy) : cstate :=
  {| srv := srv cs; next_conn := next_conn cs; proxies := setN (proxies cs) p x; iters := iters cs |}.
Definition with_iter (cs : cstate) (h : N) (x : citer) : cstate :=
  {| srv := srv cs; next_conn := next_conn cs; proxies := proxies cs; iters := setN (iters cs) h x |}.
Definition fresh_conn (cs : cstate) : cstate * conn :=
  ({| srv := srv cs; next_conn := next_conn cs + 1; proxies := proxies cs; iters := iters cs |}, next_conn cs).

(* the proxy's connection, made on demand (Proxy._pyroInvoke / _pyroGetMetadata connect when needed) *)
Definition ensure_conn (cs : cstate) (p : N) (px : proxy) : cstate * proxy * conn :=
  match p_conn px with
  | Some c => (cs, px, c)
  | None => let '(cs1, c) := fresh_conn cs in
            let px1 := {| p_conn := Some c; p_seq := p_seq px |} in
            (with_proxy cs1 p px1, px1, c)
  end.
Definition bump (px : proxy) : proxy := {| p_conn := p_conn px; p_seq := p_seq px + 1 |}.

Definition srv_step (cfg : config) (cs : cstate) (ev : event) : cstate * response :=
  (with_srv cs (fst (step cfg (srv cs) ev)), snd (step cfg (srv cs) ev)).

Definition next_resp (r : response) : cresp :=
  match r with
  | RItem v => CItem v | RStop => CStop | RRaised e => CRaised e | RError => CError
  | _ => CNone
  end.

(* does __next__ drop its proxy reference on this answer? *)
Definition drops (pol : cpolicy) (r : response) : bool :=
  match r with
  | RStop => drop_stop pol | RRaised _ => drop_raised pol | RError => drop_error pol | _ => false
  end.

Definition release (cfg : config) (cs : cstate) (p : N) (px : proxy) : cstate * trace :=
  match p_conn px with
  | None => (cs, [])
  | Some c => let '(cs1, r) := srv_step cfg cs (Disconnect c) in
              (with_proxy cs1 p {| p_conn := None; p_seq := p_seq px |}, [(Disconnect c, r)])
  end.

(* the iterator's own checks in __next__, before anything is sent *)
Inductive ready := NotAnIter | Dropped | Disconnected | Ready (it : citer) (p : N) (px : proxy) (c : conn).
Definition iter_ready (cs : cstate) (h : N) : ready :=
  match nthN (iters cs) h with
  | None => NotAnIter
  | Some it =>
      match ci_proxy it with
      | None => Dropped
      | Some p =>
          match nthN (proxies cs) p with
          | None => NotAnIter
          | Some px => match p_conn px with None => Disconnected | Some c => Ready it p px c end
          end
      end
  end.

Definition cstep (pol : cpolicy) (cfg : config) (cs : cstate) (op : cop) : cresult :=
  match op with
  | COpen p items =>
      match nthN (proxies cs) p with
      | None => (cs, CNone, [])
      | Some px =>
          let '(cs1, px1, c) := ensure_conn cs p px in
          let px2 := bump px1 in
          let cs2 := with_proxy cs1 p px2 in
          let '(cs3, r) := srv_step cfg cs2 (Open c items) in
          match r with
          | ROpened id =>
              ({| srv := srv cs3; next_conn := next_conn cs3; proxies := proxies cs3;
                  iters := iters cs3 ++ [{| ci_proxy := Some p; ci_sid := id; ci_seq := p_seq px2 |}] |},
               COpened id, [(Open c items, r)])
          | _ =>
              (* "server is not configured to allow streaming" is a ProtocolError, i.e. a CommunicationError
                 raised inside _pyroInvoke: the proxy releases its connection *)
              let '(cs4, tr) := release cfg cs3 p px2 in
              (cs4, CNoStreaming, (Open c items, r) :: tr)
          end
      end
  | CNext h =>
      match iter_ready cs h with
      | NotAnIter => (cs, CNone, [])
      | Dropped => (cs, CStop, [])
      | Disconnected => (cs, CClosedLocal, [])
      | Ready it p px c =>
          let cs1 := with_proxy cs p (bump px) in
          let '(cs2, r) := srv_step cfg cs1 (Next c (ci_sid it)) in
          let it1 := {| ci_proxy := if drops pol r then None else ci_proxy it;
                        ci_sid := ci_sid it; ci_seq := ci_seq it + 1 |} in
          (with_iter cs2 h it1, next_resp r, [(Next c (ci_sid it), r)])
      end
  | CNextFault h f =>
      match iter_ready cs h with
      | NotAnIter => (cs, CNone, [])
      | Dropped => (cs, CStop, [])
      | Disconnected => (cs, CClosedLocal, [])
      | Ready it p px c =>
          let px1 := bump px in
          let cs1 := with_proxy cs p px1 in
          let it1 := {| ci_proxy := if drop_comm pol then None else ci_proxy it;
                        ci_sid := ci_sid it; ci_seq := ci_seq it + 1 |} in
          match f with
          | ReqLost =>
              let '(cs2, tr) := release cfg cs1 p px1 in
              (with_iter cs2 h it1, CCommErr None, tr)
          | ReplyLost =>
              let '(cs2, r) := srv_step cfg cs1 (Next c (ci_sid it)) in
              let '(cs3, tr) := release cfg cs2 p px1 in
              (with_iter cs3 h it1, CCommErr (Some r), (Next c (ci_sid it), r) :: tr)
          end
      end
  | CClose h =>
      match nthN (iters cs) h with
      | None => (cs, CNone, [])
      | Some it =>
          let done := {| ci_proxy := None; ci_sid := ci_sid it; ci_seq := ci_seq it |} in
          match iter_ready cs h with
          | NotAnIter | Dropped => (cs, CNone, [])
          | Disconnected => (with_iter cs h done, CNone, [])
          | Ready _ p px c =>
              if ci_seq it =? p_seq px
              then (* still in sync: close over the proxy's own connection *)
                let cs1 := with_proxy cs p (bump px) in
                let '(cs2, r) := srv_step cfg cs1 (CloseStream c (ci_sid it)) in
                (with_iter cs2 h done, CNone, [(CloseStream c (ci_sid it), r)])
              else (* diverged: a temporary copy of the proxy connects, closes the stream, disconnects *)
                let '(cs1, c') := fresh_conn cs in
                let '(cs2, r) := srv_step cfg cs1 (CloseStream c' (ci_sid it)) in
                let '(cs3, r') := srv_step cfg cs2 (Disconnect c') in
                (with_iter cs3 h done, CNone, [(CloseStream c' (ci_sid it), r); (Disconnect c', r')])
          end
      end
  | CRelease p =>
      match nthN (proxies cs) p with
      | None => (cs, CNone, [])
      | Some px => let '(cs1, tr) := release cfg cs p px in (cs1, CNone, tr)
      end
  | CReconnect p =>
      match nthN (proxies cs) p with
      | None => (cs, CNone, [])
      | Some px =>
          let '(cs1, tr) := release cfg cs p px in
          let '(cs2, _, _) := ensure_conn cs1 p {| p_conn := None; p_seq := p_seq px |} in
          (cs2, CNone, tr)
      end
  | CRawNext p id =>
      match nthN (proxies cs) p with
      | None => (cs, CNone, [])
      | Some px =>
          let '(cs1, px1, c) := ensure_conn cs p px in
          let cs2 := with_proxy cs1 p (bump px1) in
          let '(cs3, r) := srv_step cfg cs2 (Next c id) in
          (cs3, next_resp r, [(Next c id, r)])
      end
  | CRawClose p id =>
      match nthN (proxies cs) p with
      | None => (cs, CNone, [])
      | Some px =>
          let '(cs1, px1, c) := ensure_conn cs p px in
          let cs2 := with_proxy cs1 p (bump px1) in
          let '(cs3, r) := srv_step cfg cs2 (CloseStream c id) in
          (cs3, CNone, [(CloseStream c id, r)])
      end
  | CHousekeep => let '(cs1, r) := srv_step cfg cs Housekeep in (cs1, CNone, [(Housekeep, r)])
  | CTick dt => let '(cs1, r) := srv_step cfg cs (Tick dt) in (cs1, CNone, [(Tick dt, r)])
  end.

Definition ctrace := list (cop * cresp).
Fixpoint crun (pol : cpolicy) (cfg : config) (cs : cstate) (ops : list cop) : cstate * ctrace * trace :=
  match ops with
  | [] => (cs, [], [])
  | op :: ops' =>
      let '(cs1, r, tr) := cstep pol cfg cs op in
      let '(cs2, ctr, tr') := crun pol cfg cs1 ops' in
      (cs2, (op, r) :: ctr, tr ++ tr')
  end.

(* ---- reading a client history ---- *)
(* what the server handed out for client stream h (an item that arrived, or one whose reply was lost) *)
Definition entry_taken (h : N) (e : cop * cresp) : list N :=
  match e with
  | (CNext k, CItem v) => if k =? h then [v] else []
  | (CNextFault k _, CCommErr (Some (RItem v))) => if k =? h then [v] else []
  | _ => []
  end.
Definition taken (tr : ctrace) (h : N) : list N := flat_map (entry_taken h) tr.
(* what client stream object h actually yielded *)
Definition entry_received (h : N) (e : cop * cresp) : list N :=
  match e with
  | (CNext k, CItem v) => if k =? h then [v] else []
  | _ => []
  end.
Definition received (tr : ctrace) (h : N) : list N := flat_map (entry_received h) tr.
(* the item lists of the streams the client was handed, in order of handle number *)
Definition entry_opened (e : cop * cresp) : list (list item) :=
  match e with (COpen _ items, COpened _) => [items] | _ => [] end.
Definition copened (tr : ctrace) : list (list item) := flat_map entry_opened tr.

(* does the operation ask for the next item of client stream h? *)
Definition asks (h : N) (op : cop) : bool :=
  match op with CNext k | CNextFault k _ => k =? h | _ => false end.
Definition is_raw (op : cop) : bool := match op with CRawNext _ _ | CRawClose _ _ => true | _ => false end.
Definition reply_lost_on (h : N) (op : cop) : bool :=
  match op with CNextFault k ReplyLost => k =? h | _ => false end.

(* quiescence: every connection in [conns] ends, the linger period passes, housekeeping runs *)
Definition quiesce (conns : list conn) (dt : N) : list event := map Disconnect conns ++ [Tick dt; Housekeep].
Definition live_conns (cs : cstate) : list conn :=
  flat_map (fun px => match p_conn px with Some c => [c] | None => [] end) (proxies cs).
