(* C12 — per-call context (Pyro5/callcontext.py, server.py handleRequest/_handshake/
   __annotations/_sendExceptionResponse/_OnewayCallThread, client.py _pyroInvoke).

   Executable model, definitions only.  Threads [t : nat] each own a context
   {response annotations; request fields}; the daemon serves events on behalf of
   connections [c : N].  Which thread serves which event is part of the event (multiplex:
   always the same thread; thread-pool server: the worker that took the connection,
   reused by later connections; oneway calls: a fresh thread that gets a copy).
   Events are micro-steps, so that any interleaving of concurrent calls is a list of
   events.  The [shape] record holds the structural facts the behaviour depends on; it is
   regenerated from the source on every run (Gen/GenCallCtx.v). *)
From Coq Require Import List NArith Arith Bool.
Import ListNotations.

(* ---- request fields a method can read from the context *)
Inductive field := FClient | FAddr | FSeq | FFlags | FSer | FAnns | FCorr.
Definition all_fields : list field := [FClient; FAddr; FSeq; FFlags; FSer; FAnns; FCorr].
Definition field_id (f : field) : N :=
  match f with FClient => 0 | FAddr => 1 | FSeq => 2 | FFlags => 3 | FSer => 4 | FAnns => 5 | FCorr => 6 end%N.
Definition resp_field_id : N := 7%N.       (* response_annotations in to_global/from_global *)
Definition req := field -> N.
Definition req0 : req := fun _ => 0%N.      (* a fresh thread's context: None / 0 / {} *)

(* a request whose peer address cannot be determined when it is served (the peer has reset the connection
   after queueing the request): the context's address field is set to None, written [addr_unknown] *)
Definition addr_unknown : N := 9001%N.
Definition peer_unknown (r : req) : req := fun f => match f with FAddr => addr_unknown | _ => r f end.

Definition mem (x : N) (l : list N) : bool := existsb (N.eqb x) l.

Record ctx := mkctx { resp : list N; rq : req }.
Definition ctx0 : ctx := mkctx [] req0.

(* ---- structure of the implementation (generated) *)
Record shape := mkshape {
  sh_thread_local : bool;  (* _CallContext derives from threading.local *)
  sh_reset_req : N;        (* `response_annotations = {}` in handleRequest: 0 none, 1 before the PING branch,
                              2 after it but before the arguments are decoded, 3 later but before the method call *)
  sh_reset_hs : N;         (* same in _handshake: 0 none, 1 inside the try after the message was read, 2 before everything *)
  sh_reset_after : bool;   (* reset after the normal reply was built *)
  sh_inplace : bool;       (* __annotations() merges daemon annotations into the context's dict in place *)
  sh_setup : list N;       (* field ids definitely assigned from the request before the method call *)
  sh_oneway : list N       (* field ids restored by from_global in the oneway thread (7 = response annotations) *)
}.

Definition shape_resp_ok (sh : shape) : bool :=
  sh_thread_local sh && (sh_reset_req sh =? 1)%N && (sh_reset_hs sh =? 2)%N.
Definition shape_ctx_ok (sh : shape) : bool :=
  sh_thread_local sh && forallb (fun f => mem (field_id f) (sh_setup sh)) all_fields
                     && forallb (fun f => mem (field_id f) (sh_oneway sh)) all_fields.

(* ---- events and outputs *)
Inductive hkind := HOk | HRefused | HGarbage.   (* accepted / well-formed CONNECT refused / first message unreadable *)
Inductive rkind := KConnOk | KConnFail | KPing | KResult | KBatch | KError.
Inductive mode := Assign | Update.              (* ctx.response_annotations = {..}  /  ctx.response_annotations[k] = v *)

Inductive event :=
| EHandshake (t : nat) (c : N) (h : hkind)   (* _handshake on a new connection, answers CONNECTOK / CONNECTFAIL *)
| EPing (t : nat) (c : N)                    (* a PING request, answered at once *)
| EBegin (t : nat) (r : option req)          (* an INVOKE was received; Some r: arguments decoded, context set up from r *)
| ESet (t : nat) (m : mode) (a : list N)     (* user code sets response annotations *)
| ESnap (t : nat) (tok : N)                  (* user code reads the context *)
| EReturn (t : nat) (c : N) (batch : bool)   (* normal reply (result or batch result) *)
| ERaise (t : nat) (c : N)                   (* error reply *)
| EDone (t : nat)                            (* request ends without a reply (oneway) *)
| ESpawn (p o : nat).                        (* oneway: thread o starts with a copy of p's context *)

Inductive output :=
| OReply (c : N) (k : rkind) (anns : list N)
| OCtx (t : nat) (tok : N) (snap : req).

Definition thread_of (e : event) : nat :=
  match e with
  | EHandshake t _ _ | EPing t _ | EBegin t _ | ESet t _ _ | ESnap t _ | EReturn t _ _ | ERaise t _ | EDone t => t
  | ESpawn _ o => o
  end.
(* threads whose context the event reads or writes *)
Definition touches (e : event) : list nat :=
  match e with ESpawn p o => [p; o] | _ => [thread_of e] end.

(* the event starts the handling of a new request / handshake on thread t *)
Definition is_start_on (t : nat) (e : event) : bool :=
  match e with
  | EHandshake u _ _ | EPing u _ | EBegin u _ => Nat.eqb u t
  | _ => false
  end.
(* the event replaces the request fields of thread t's context *)
Definition overwrites_req (t : nat) (e : event) : bool :=
  match e with
  | EBegin u (Some _) => Nat.eqb u t
  | ESpawn _ o => Nat.eqb o t
  | _ => false
  end.

(* ---- the machine *)
Definition smap := nat -> ctx.
Definition s0 : smap := fun _ => ctx0.
Definition upd (s : smap) (t : nat) (x : ctx) : smap := fun u => if Nat.eqb u t then x else s u.
Definition th (sh : shape) (t : nat) : nat := if sh_thread_local sh then t else 0%nat.

Definition setup (mask : list N) (r old : req) : req :=
  fun f => if mem (field_id f) mask then r f else old f.

Definition hs_clears (sh : shape) (h : hkind) : bool :=
  if (sh_reset_hs sh =? 2)%N then true
  else if (sh_reset_hs sh =? 1)%N then match h with HGarbage => false | _ => true end
  else false.
Definition ping_clears (sh : shape) : bool := (sh_reset_req sh =? 1)%N.
Definition begin_clears (sh : shape) (decoded : bool) : bool :=
  (sh_reset_req sh =? 1)%N || (sh_reset_req sh =? 2)%N || (decoded && (sh_reset_req sh =? 3)%N).

(* reply built through Daemon.__annotations(): context annotations, then the daemon's *)
Definition via_ctx (sh : shape) (D : list N) (clear : bool) (x : ctx) : list N * ctx :=
  let r0 := if clear then [] else resp x in
  let a := r0 ++ D in
  (a, mkctx (if sh_inplace sh then a else r0) (rq x)).

Definition step (sh : shape) (D : list N) (s : smap) (e : event) : smap * list output :=
  match e with
  | EHandshake t c h =>
      let u := th sh t in
      let '(a, x') := via_ctx sh D (hs_clears sh h) (s u) in
      (upd s u x', [OReply c (match h with HOk => KConnOk | _ => KConnFail end) a])
  | EPing t c =>
      let u := th sh t in
      let '(a, x') := via_ctx sh D (ping_clears sh) (s u) in
      (upd s u x', [OReply c KPing a])
  | EBegin t r =>
      let u := th sh t in
      let x := s u in
      let r0 := if begin_clears sh (match r with Some _ => true | None => false end) then [] else resp x in
      (upd s u (mkctx r0 (match r with Some r => setup (sh_setup sh) r (rq x) | None => rq x end)), [])
  | ESet t m a =>
      let u := th sh t in
      let x := s u in
      (upd s u (mkctx (match m with Assign => a | Update => resp x ++ a end) (rq x)), [])
  | ESnap t tok =>
      (s, [OCtx t tok (rq (s (th sh t)))])
  | EReturn t c batch =>
      let u := th sh t in
      let '(a, x') := via_ctx sh D false (s u) in
      (upd s u (if sh_reset_after sh then mkctx [] (rq x') else x'),
       [OReply c (if batch then KBatch else KResult) a])
  | ERaise t c =>
      (s, [OReply c KError D])          (* _sendExceptionResponse: daemon annotations only, context untouched *)
  | EDone t => (s, [])
  | ESpawn p o =>
      let x := s (th sh p) in
      let y := s (th sh o) in
      (upd s (th sh o) (mkctx (if mem resp_field_id (sh_oneway sh) then resp x else resp y)
                              (setup (sh_oneway sh) (rq x) (rq y))), [])
  end.

Fixpoint run (sh : shape) (D : list N) (s : smap) (evs : list event) : smap * list output :=
  match evs with
  | [] => (s, [])
  | e :: r => let '(s1, o1) := step sh D s e in
              let '(s2, o2) := run sh D s1 r in (s2, o1 ++ o2)
  end.
Definition state_after sh D evs : smap := fst (run sh D s0 evs).
Definition trace sh D evs : list output := snd (run sh D s0 evs).

(* outputs tagged with the thread that produced them *)
Fixpoint trun (sh : shape) (D : list N) (s : smap) (evs : list event) : list (nat * output) :=
  match evs with
  | [] => []
  | e :: r => let '(s1, o1) := step sh D s e in map (fun o => (thread_of e, o)) o1 ++ trun sh D s1 r
  end.
Definition proj (t : nat) (l : list (nat * output)) : list (nat * output) :=
  filter (fun p => Nat.eqb (fst p) t) l.

Definition indepb (e1 e2 : event) : bool :=
  forallb (fun t => negb (existsb (Nat.eqb t) (touches e2))) (touches e1).

(* two histories that differ by swapping adjacent events of unrelated threads *)
Inductive interleave_equiv : list event -> list event -> Prop :=
| ie_refl : forall h, interleave_equiv h h
| ie_swap : forall a e1 e2 b, indepb e1 e2 = true -> interleave_equiv (a ++ e1 :: e2 :: b) (a ++ e2 :: e1 :: b)
| ie_trans : forall h1 h2 h3, interleave_equiv h1 h2 -> interleave_equiv h2 h3 -> interleave_equiv h1 h3.

(* ---- the implementation shapes of interest *)
Definition all_ids : list N := [0;1;2;3;4;5;6;7]%N.
Definition shape_fixed : shape := mkshape true 1 2 true true all_ids all_ids.
Definition shape_leaky : shape := mkshape true 0 0 true true all_ids all_ids.      (* no reset at request / handshake start *)

(* ---- client half (client.py _pyroInvoke / Proxy.__init__) *)
Inductive cevent :=
| CNew                                                  (* a Proxy is created *)
| CCall (hs : option (list N)) (reply : option (list N)).
   (* one _pyroInvoke: hs = annotations of the CONNECTOK received if the call had to connect first;
      reply = annotations of the reply message, None if no reply is read (oneway, failure) *)
Definition nonempty (l : list N) : bool := match l with [] => false | _ => true end.
Definition cstep (reset : bool) (r : list N) (e : cevent) : list N :=
  match e with
  | CNew => []
  | CCall hs reply =>
      let r0 := if reset then [] else r in
      let r1 := match hs with Some H => if nonempty H then H else r0 | None => r0 end in
      match reply with Some R => if nonempty R then R else r1 | None => r1 end
  end.
Fixpoint crun (reset : bool) (r : list N) (evs : list cevent) : list (list N) :=
  match evs with
  | [] => []
  | e :: rest => let r' := cstep reset r e in r' :: crun reset r' rest
  end.
