(* C01 — the type mapping each serializer applies to a value on its way over the wire.
   Definitions only.

   wire tb s p v = what a value v sent with serializer s in position p (positional argument,
   keyword argument, result) is delivered as:  Delivered v' | Refused (some step raises; the
   call fails with an exception) | Outside (outside the modelled domain: a "__class__" key, an
   ExtType object passed in by the user, a json dict key that the json module coerces to text).

   Every serializer is  dec s cfg (enc s cfg v):
     enc = Pyro5's dump-side layer (json/msgpack `default`, marshal's top-level
           convert_obj_into_marshallable) composed with the third-party library's own
           dump-then-load mapping.  The library part is an ASSUMPTION about serpent / marshal /
           json / msgpack, validated by the correspondence run, not proved.
     dec = Pyro5's load-side layer (msgpack ext_hook / object_hook, recreate_classes).
   Which layers are present on which path is the hook table [tb], regenerated from
   serializers.py on every run (Gen/GenSerializers.v).

   ASSUMPTION made explicit by the signature of [wire]: the delivered value is a function of
   (hook table, serializer, path, value) ONLY.  It does not depend on the type of buffer the
   protocol layer hands to loads/loadsCall (bytes; a memoryview slice when the message carries
   annotation chunks; bytes again after zlib.decompress; bytearray), nor on request / response
   annotations, the correlation id or compression.  [wire] has no such parameter, so the harness
   observes every case under all of these configurations against the same model outcome: any
   dependence shows up as a correspondence mismatch and as the oracle violations
   buffer-type-dependent / value-changes-with-message-annotations / value-changes-with-correlation-id /
   compression-changes-value. *)
From Coq Require Import List NArith ZArith Bool.
Import ListNotations.
From V Require Import Model.Values Gen.GenSerializers.

Inductive ser := Serpent | Marshal | Json | Msgpack.
Inductive path := Arg | Kwarg | Result.

Record cfg := { c_default : bool; c_convert : bool; c_object_hook : bool; c_ext_hook : bool; c_recreate : bool }.
Definition mkcfg (t : bool * bool * bool * bool * bool) : cfg :=
  let '(a, b, c, d, e) := t in
  {| c_default := a; c_convert := b; c_object_hook := c; c_ext_hook := d; c_recreate := e |}.

Definition table := ser -> path -> cfg.
Definition gen_table : table := fun s p =>
  mkcfg match s, p with
        | Serpent, Arg => hk_serpent_arg | Serpent, Kwarg => hk_serpent_kwarg | Serpent, Result => hk_serpent_result
        | Marshal, Arg => hk_marshal_arg | Marshal, Kwarg => hk_marshal_kwarg | Marshal, Result => hk_marshal_result
        | Json, Arg => hk_json_arg | Json, Kwarg => hk_json_kwarg | Json, Result => hk_json_result
        | Msgpack, Arg => hk_msgpack_arg | Msgpack, Kwarg => hk_msgpack_kwarg | Msgpack, Result => hk_msgpack_result
        end.

Definition cfg_eqb (a b : cfg) : bool :=
  Bool.eqb (c_default a) (c_default b) && Bool.eqb (c_convert a) (c_convert b) &&
  Bool.eqb (c_object_hook a) (c_object_hook b) && Bool.eqb (c_ext_hook a) (c_ext_hook b) &&
  Bool.eqb (c_recreate a) (c_recreate b).

Definition all_sers : list ser := [Serpent; Marshal; Json; Msgpack].

(* the same layers on all three paths of every serializer *)
Definition hooks_symmetric (tb : table) : bool :=
  forallb (fun s => cfg_eqb (tb s Arg) (tb s Result) && cfg_eqb (tb s Kwarg) (tb s Result)) all_sers.

(* every layer the serializer has is present (the layers a serializer does not have are ignored) *)
Definition complete (s : ser) (c : cfg) : bool :=
  match s with
  | Serpent => c_recreate c
  | Marshal => c_convert c && c_recreate c
  | Json => c_default c && c_recreate c
  | Msgpack => c_default c && (c_object_hook c || c_recreate c) && c_ext_hook c   (* classes recreated by an object_hook or, since the C04 repair, by recreate_classes after unpacking *)
  end.
Definition hooks_complete (tb : table) : bool :=
  forallb (fun s => complete s (tb s Arg) && complete s (tb s Kwarg) && complete s (tb s Result)) all_sers.

(* ext_hook decodes with the constructor that matches what default() encoded *)
Definition ext_codes_match : bool :=
  N.eqb ext_complex hook_complex && N.eqb ext_long hook_long && N.eqb ext_date hook_date
  && N.eqb ext_datetime hook_datetime
  && negb (N.eqb ext_complex ext_long) && negb (N.eqb ext_complex ext_date) && negb (N.eqb ext_long ext_date)
  && negb (N.eqb ext_datetime ext_complex) && negb (N.eqb ext_datetime ext_long) && negb (N.eqb ext_datetime ext_date).

(* ------------------------------------------------------------------ recreate_classes *)
(* the dict serpent writes for a float NaN: {'__class__':'float','value':'nan'} *)
Definition nan_dict : val := VDict [(VStr t_class, VStr t_float); (VStr t_value, VStr t_nan)].
Definition is_nan_dict (d : list (val * val)) : bool :=
  match d with
  | [(VStr a, VStr b); (VStr c, VStr e)] =>
      text_eqb a t_class && text_eqb b t_float && text_eqb c t_value && text_eqb e t_nan
  | _ => false
  end.

(* SerializerBase.recreate_classes: walks exact list / tuple / set / dict-values; a dict with a
   "__class__" key goes to dict_to_class, of which only serpent's float-NaN case is in the
   domain ([nan] = this is the serpent serializer). *)
Fixpoint rc_map (nan : bool) (v : val) : val :=
  match v with
  | VList l => VList (map (rc_map nan) l)
  | VTuple l => VTuple (map (rc_map nan) l)
  | VSet l => VSet (map (rc_map nan) l)
  | VDict d => if nan && is_nan_dict d then VFloat FNaN
               else VDict (map (fun kv => (fst kv, rc_map nan (snd kv))) d)
  | _ => v
  end.
Fixpoint rc_st (nan : bool) (v : val) : st :=
  match v with
  | VList l | VTuple l | VSet l => st_all (map (rc_st nan) l)
  | VDict d => if has_class d then (if nan && is_nan_dict d then SOk else SOutside)
               else st_all (map (fun kv => rc_st nan (snd kv)) d)
  | _ => SOk
  end.
(* without recreate_classes a class dict simply stays a dict; "__class__" keys sent by the user
   are outside the domain either way *)
Fixpoint noclass_st (nan : bool) (v : val) : st :=
  match v with
  | VList l | VTuple l | VSet l => st_all (map (noclass_st nan) l)
  | VDict d => if has_class d then (if nan && is_nan_dict d then SOk else SOutside)
               else st_all (map (fun kv => noclass_st nan (snd kv)) d)
  | _ => SOk
  end.

(* ------------------------------------------------------------------ serpent *)
(* serpent's _check_hashable_type: bool, bytes, str, tuple or a numbers.Number *)
Definition sp_keytype (v : val) : bool :=
  match v with
  | VBool _ | VBytes _ | VStr _ | VTuple _ | VInt _ | VFloat _ | VComplex _ _ | VDecimal _ => true
  | _ => false
  end.
(* serpent writes a complex as the text "(<re>+<im>j)" / "(<re>-<|im|>j)", which Python reads back as
   re + complex(0, im) resp. re - complex(0, |im|): a negative zero survives only as the real part of
   a complex whose imaginary part has its sign bit set. *)
Definition negzero_bits : N := 9223372036854775808%N.
Definition sign_set (f : fl) : bool := match f with FBits b => N.leb negzero_bits b | FNaN => false end.
Definition is_negzero (f : fl) : bool := match f with FBits b => N.eqb b negzero_bits | FNaN => false end.
Definition unneg0 (f : fl) : fl := if is_negzero f then FBits 0 else f.
Definition sp_cplx (re im : fl) : val :=
  if sign_set im then VComplex re (unneg0 im) else VComplex (unneg0 re) im.

Fixpoint sp_map (v : val) : val :=
  match v with
  | VFloat FNaN => nan_dict
  | VComplex re im => sp_cplx re im
  | VBytes b => VDict [(VStr t_data, VStr (b64 b)); (VStr t_encoding, VStr t_base64)]
  | VList l => VList (map sp_map l)
  | VTuple l => VTuple (map sp_map l)
  | VSet l | VFrozenSet l => match l with [] => VTuple [] | _ => VSet (map sp_map l) end
  | VDict d => VDict (map (fun kv => (sp_map (fst kv), sp_map (snd kv))) d)
  | VUuid s | VDecimal s => VStr s
  | VDate _ iso | VDateTime _ iso => VStr iso
  | _ => v
  end.
Fixpoint sp_st (v : val) : st :=
  match v with
  | VList l | VTuple l => st_all (map sp_st l)
  | VSet l | VFrozenSet l =>
      st_all (map (fun x => st_and (guard (sp_keytype x && hashable (sp_map x))) (sp_st x)) l)
  | VDict d =>
      st_all (map (fun kv => st_and (st_and (guard (sp_keytype (fst kv) && hashable (sp_map (fst kv))))
                                            (sp_st (fst kv))) (sp_st (snd kv))) d)
  | VComplex re im => guard (negb (is_nan re || is_nan im))
  | VExt _ _ => SOutside
  | _ => SOk
  end.

(* ------------------------------------------------------------------ marshal *)
(* convert_obj_into_marshallable, applied to the top-level value only *)
Definition ma_top (conv : bool) (v : val) : val :=
  if conv then match v with VUuid s => VStr s | _ => v end else v.
Definition ma_top_st (conv : bool) (v : val) : st :=
  if conv then match v with VDecimal _ | VDate _ _ | VDateTime _ _ => SRefused | _ => SOk end else SOk.
Fixpoint ma_st (v : val) : st :=
  match v with
  | VList l | VTuple l | VSet l | VFrozenSet l => st_all (map ma_st l)
  | VDict d => st_all (map (fun kv => st_and (ma_st (fst kv)) (ma_st (snd kv))) d)
  | VUuid _ | VDecimal _ | VDate _ _ | VDateTime _ _ => SRefused
  | VExt _ _ => SOutside
  | _ => SOk
  end.

(* ------------------------------------------------------------------ json *)
Definition js_key_st (k : val) : st :=
  match k with
  | VStr _ => SOk
  | VNone | VBool _ | VInt _ | VFloat _ => SOutside    (* coerced to text by the json module: not modelled *)
  | VExt _ _ => SOutside
  | _ => SRefused
  end.
Fixpoint js_map (v : val) : val :=
  match v with
  | VList l | VTuple l | VSet l => VList (map js_map l)
  | VDict d => VDict (map (fun kv => (fst kv, js_map (snd kv))) d)
  | VUuid s | VDecimal s => VStr s
  | VDate _ iso | VDateTime _ iso => VStr iso
  | _ => v
  end.
Fixpoint js_st (dflt : bool) (v : val) : st :=
  match v with
  | VNone | VBool _ | VInt _ | VFloat _ | VStr _ => SOk
  | VBytes _ | VFrozenSet _ | VComplex _ _ => SRefused
  | VList l | VTuple l => st_all (map (js_st dflt) l)
  | VSet l => st_and (guard dflt) (st_all (map (js_st dflt) l))
  | VDict d => st_all (map (fun kv => st_and (js_key_st (fst kv)) (js_st dflt (snd kv))) d)
  | VUuid _ | VDecimal _ | VDate _ _ | VDateTime _ _ => guard dflt
  | VExt _ _ => SOutside
  end.

(* ------------------------------------------------------------------ msgpack *)
Definition mp_int_native (z : Z) : bool := ((- 2 ^ 63 <=? z) && (z <? 2 ^ 64))%Z.
Definition is_str_or_bytes (v : val) : bool := match v with VStr _ | VBytes _ => true | _ => false end.
Fixpoint mp_map (v : val) : val :=
  match v with
  | VInt z => if mp_int_native z then v else VExt ext_long v
  | VList l | VTuple l | VSet l => VList (map mp_map l)
  | VDict d => VDict (map (fun kv => (mp_map (fst kv), mp_map (snd kv))) d)
  | VComplex _ _ => VExt ext_complex v
  | VDate _ _ => VExt ext_date v
  | VDateTime _ _ => VExt ext_datetime v
  | VUuid s | VDecimal s => VStr s
  | _ => v
  end.
Fixpoint mp_st (dflt : bool) (v : val) : st :=
  match v with
  | VInt z => guard (mp_int_native z || dflt)
  | VList l | VTuple l => st_all (map (mp_st dflt) l)
  | VSet l => st_and (guard dflt) (st_all (map (mp_st dflt) l))
  | VFrozenSet _ => SRefused
  | VDict d => st_all (map (fun kv => st_and (st_and (mp_st dflt (fst kv)) (guard (is_str_or_bytes (mp_map (fst kv)))))
                                            (mp_st dflt (snd kv))) d)
  | VComplex _ _ | VDate _ _ | VDateTime _ _ | VUuid _ | VDecimal _ => guard dflt
  | VExt _ _ => SOutside
  | _ => SOk
  end.
(* ext_hook(code, data) on an ExtType whose data encodes [p] *)
Definition ext_decodes (code : N) (p : val) : bool :=
  match p with
  | VComplex _ _ => N.eqb code hook_complex
  | VInt _ => N.eqb code hook_long
  | VDate _ _ => N.eqb code hook_date
  | VDateTime _ _ => N.eqb code hook_datetime
  | _ => false
  end.
(* the unpacker's hooks: ext_hook on every ExtType; object_hook on every dict (class dicts are
   outside the domain).  msgpack delivers only lists and dicts as containers. *)
Fixpoint ux_map (ext : bool) (v : val) : val :=
  match v with
  | VExt c p => if ext then p else v
  | VList l => VList (map (ux_map ext) l)
  | VDict d => VDict (map (fun kv => (fst kv, ux_map ext (snd kv))) d)
  | _ => v
  end.
Fixpoint ux_st (ext : bool) (v : val) : st :=
  match v with
  | VExt c p => if ext then guard (ext_decodes c p) else SOk
  | VList l => st_all (map (ux_st ext) l)
  | VDict d => if has_class d then SOutside else st_all (map (fun kv => ux_st ext (snd kv)) d)
  | _ => SOk
  end.

(* ------------------------------------------------------------------ the four serializers *)
Definition enc_map (s : ser) (c : cfg) (v : val) : val :=
  match s with
  | Serpent => sp_map v
  | Marshal => ma_top (c_convert c) v
  | Json => js_map v
  | Msgpack => mp_map v
  end.
Definition enc_st (s : ser) (c : cfg) (v : val) : st :=
  match s with
  | Serpent => sp_st v
  | Marshal => st_and (ma_top_st (c_convert c) v) (ma_st (ma_top (c_convert c) v))
  | Json => js_st (c_default c) v
  | Msgpack => mp_st (c_default c) v
  end.
Definition dec_map (s : ser) (c : cfg) (w : val) : val :=
  match s with
  | Serpent => if c_recreate c then rc_map true w else w
  | Marshal | Json => if c_recreate c then rc_map false w else w
  | Msgpack => ux_map (c_ext_hook c) w
  end.
Definition dec_st (s : ser) (c : cfg) (w : val) : st :=
  match s with
  | Serpent => if c_recreate c then rc_st true w else noclass_st true w
  | Marshal | Json => if c_recreate c then rc_st false w else noclass_st false w
  | Msgpack => ux_st (c_ext_hook c) w
  end.

Inductive outcome := Delivered (v : val) | Refused | Outside.

Definition wire_cfg (s : ser) (c : cfg) (v : val) : outcome :=
  match enc_st s c v with
  | SOutside => Outside
  | SRefused => Refused
  | SOk =>
      let w := enc_map s c v in
      match dec_st s c w with
      | SOutside => Outside
      | SRefused => Refused
      | SOk => Delivered (dec_map s c w)
      end
  end.

Definition wire (tb : table) (s : ser) (p : path) (v : val) : outcome := wire_cfg s (tb s p) v.

(* ------------------------------------------------------------------ fixed points *)
(* [stable s v]: v is a value the serializer delivers unchanged — the image of its mapping. *)
Fixpoint sp_stable (v : val) : bool :=
  match v with
  | VNone | VBool _ | VInt _ | VFloat _ | VStr _ => true
  | VList l | VTuple l => forallb sp_stable l
  | VSet l => match l with [] => false | _ => forallb (fun x => sp_keytype x && hashable (sp_map x) && sp_stable x) l end
  | VDict d => negb (has_class d) &&
               forallb (fun kv => sp_keytype (fst kv) && hashable (sp_map (fst kv)) && sp_stable (fst kv) && sp_stable (snd kv)) d
  | VComplex re im => negb (is_nan re || is_nan im) && negb (if sign_set im then is_negzero im else is_negzero re)
  | _ => false
  end.
(* the one class of values on which serpent's own mapping is not idempotent (finding, open):
   a complex number whose real and imaginary parts are both negative zeros *)
Fixpoint no_negzero_complex (v : val) : bool :=
  match v with
  | VList l | VTuple l | VSet l | VFrozenSet l => forallb no_negzero_complex l
  | VDict d => forallb (fun kv => no_negzero_complex (fst kv) && no_negzero_complex (snd kv)) d
  | VComplex re im => negb (is_negzero re && is_negzero im)
  | VExt _ p => no_negzero_complex p
  | _ => true
  end.
(* dict keys and frozenset elements are not walked by recreate_classes *)
Definition marshallable (v : val) : bool := match ma_st v with SOk => true | _ => false end.
Fixpoint ma_stable (v : val) : bool :=
  match v with
  | VNone | VBool _ | VInt _ | VFloat _ | VStr _ | VBytes _ | VComplex _ _ => true
  | VList l | VTuple l | VSet l => forallb ma_stable l
  | VFrozenSet l => forallb marshallable l
  | VDict d => negb (has_class d) && forallb (fun kv => marshallable (fst kv) && ma_stable (snd kv)) d
  | _ => false
  end.
Fixpoint js_stable (v : val) : bool :=
  match v with
  | VNone | VBool _ | VInt _ | VFloat _ | VStr _ => true
  | VList l => forallb js_stable l
  | VDict d => negb (has_class d) && forallb (fun kv => match fst kv with VStr _ => js_stable (snd kv) | _ => false end) d
  | _ => false
  end.
Fixpoint mp_stable (v : val) : bool :=
  match v with
  | VNone | VBool _ | VInt _ | VFloat _ | VStr _ | VBytes _ | VComplex _ _ | VDate _ _ | VDateTime _ _ => true
  | VList l => forallb mp_stable l
  | VDict d => negb (has_class d) && forallb (fun kv => is_str_or_bytes (fst kv) && mp_stable (snd kv)) d
  | _ => false
  end.
Definition stable (s : ser) (v : val) : bool :=
  match s with
  | Serpent => sp_stable v
  | Marshal => ma_stable v
  | Json => js_stable v
  | Msgpack => mp_stable v
  end.

(* ------------------------------------------------------------------ the defective variant *)
(* the hook table of the tree as it was at the pinned commit: MsgpackSerializer.loadsCall does not
   pass ext_hook (everything else as generated) *)
Definition quirk_table : table := fun s p =>
  match s, p with
  | Msgpack, Arg | Msgpack, Kwarg =>
      {| c_default := true; c_convert := false; c_object_hook := true; c_ext_hook := false; c_recreate := false |}
  | _, _ => gen_table s p
  end.
