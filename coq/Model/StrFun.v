(* Boolean string functions over text = list of code points.  These are the target language of
   the mini-translator in tools/gen/gen_server.py (Python: `x in CONST`, x.startswith(lit),
   x.endswith(lit), len(x) > n).  Definitions only. *)
From Coq Require Import List NArith Bool.
Import ListNotations.

Definition text := list N.

Fixpoint text_eqb (a b : text) : bool :=
  match a, b with
  | [], [] => true
  | x :: a', y :: b' => N.eqb x y && text_eqb a' b'
  | _, _ => false
  end.

Definition t_mem (x : text) (l : list text) : bool := existsb (text_eqb x) l.

Fixpoint t_startswith (x p : text) : bool :=
  match p with
  | [] => true
  | c :: p' => match x with
               | [] => false
               | d :: x' => N.eqb d c && t_startswith x' p'
               end
  end.

Definition t_endswith (x p : text) : bool := t_startswith (rev x) (rev p).

Definition t_len (x : text) : N := N.of_nat (length x).
