(* C18 — the worker thread pool of Pyro5/svr_threads.py (Pool, Worker, the accept loop's
   submit/refuse path) as a small-step machine: ONE step = ONE instrumented primitive of
   the cooperative scheduler (tools/lib/coop_pool.py).  Definitions only.

   Threads: 0 = the accept loop ("main": submits jobs 0..njobs-1 through
   SocketServer_Threadpool.events -> Pool.process, then optionally Pool.close);
   t >= 1 = Worker number t-1 (in creation order).  A schedule is a list of
   (thread, choice); the choice resolves the arbitrary element taken by set.pop().
   Scheduling a thread that is finished, not yet created or blocked is a no-op.

   Which methods run under Pool.count_lock is a PARAMETER (lockcfg), regenerated from the
   source on every run (Gen/GenPool.v). *)
From Coq Require Import List Arith Bool.
Import ListNotations.

Record lockcfg := mk_lockcfg { lk_process : bool; lk_notify : bool; lk_close1 : bool; lk_close2 : bool }.
Record cfg := mk_cfg { size : nat; minw : nat; njobs : nat; do_close : bool; lk : lockcfg }.

Definition all_locked (l : lockcfg) : bool := lk_process l && lk_notify l && lk_close1 l && lk_close2 l.

(* ---- program counters: always "the next primitive this thread performs" ---- *)
Inductive mpc :=
| MAcq | MClosedRd | MIdleBool | MPop | MLenBusy | MLenIdle | MSpawn | MBusyAdd | MSlotWr | MEvSet
| MRelOk | MRelRefuse | MRelClosed | MDeny
| CClosedRd | CAcq1 | CIterBusy | CSlot1 | CEv1 | CIterIdle | CSlot2 | CEv2 | CClosedWr | CRel1
| CAcq2 | CSwapIdle | CSwapBusy | CRel2
| MDone.

Inductive wpc :=
| WWait | WClear | WRead1 | WRead2 | WJobEnd | WSlotClr
| WAcq | WContains | WRemove | WClosedRd | WLenIdle | WIdleAdd | WRetSlot | WRetEv | WRel
| WExit.

Record worker := mk_worker { w_pc : wpc; w_slot : option nat; w_ev : bool; w_cur : option nat; w_found : bool; w_crash : bool }.
Record main := mk_main { m_pc : mpc; m_next : nat; m_w : nat; m_lenb : nat; m_snap : list nat }.

Record st := mk_st { lock : option nat; idle : list nat; busy : list nat; closed : bool;
                     nw : nat; ws : nat -> worker; mn : main;
                     started : list nat; ended : list nat; refused : list nat; poolclosed : list nat }.

Definition worker0 : worker := mk_worker WWait None false None false false.
Definition updw (f : nat -> worker) (i : nat) (w : worker) : nat -> worker :=
  fun k => if Nat.eqb k i then w else f k.

Definition set_pc (w : worker) (p : wpc) : worker := mk_worker p (w_slot w) (w_ev w) (w_cur w) (w_found w) (w_crash w).
Definition set_slot (w : worker) (x : option nat) : worker := mk_worker (w_pc w) x (w_ev w) (w_cur w) (w_found w) (w_crash w).
Definition set_ev (w : worker) (b : bool) : worker := mk_worker (w_pc w) (w_slot w) b (w_cur w) (w_found w) (w_crash w).

Fixpoint remove_nat (x : nat) (l : list nat) : list nat :=
  match l with [] => [] | y :: l' => if Nat.eqb y x then l' else y :: remove_nat x l' end.
Definition mem_nat (x : nat) (l : list nat) : bool := existsb (Nat.eqb x) l.

(* set.pop(): an arbitrary element, chosen by the schedule *)
Definition pick (ch : nat) (l : list nat) : nat := nth (ch mod (length l)) l 0.

(* where main goes when the current operation is over *)
Definition after_submit (c : cfg) (next : nat) : mpc :=
  if Nat.ltb next (njobs c) then (if lk_process (lk c) then MAcq else MClosedRd)
  else if do_close c then CClosedRd else MDone.
Definition main_start (c : cfg) : mpc := after_submit c 0.

Definition set_main (s : st) (m : main) : st :=
  mk_st (lock s) (idle s) (busy s) (closed s) (nw s) (ws s) m (started s) (ended s) (refused s) (poolclosed s).
Definition set_lock (s : st) (l : option nat) : st :=
  mk_st l (idle s) (busy s) (closed s) (nw s) (ws s) (mn s) (started s) (ended s) (refused s) (poolclosed s).
Definition set_idle (s : st) (l : list nat) : st :=
  mk_st (lock s) l (busy s) (closed s) (nw s) (ws s) (mn s) (started s) (ended s) (refused s) (poolclosed s).
Definition set_busy (s : st) (l : list nat) : st :=
  mk_st (lock s) (idle s) l (closed s) (nw s) (ws s) (mn s) (started s) (ended s) (refused s) (poolclosed s).
Definition set_closed (s : st) (b : bool) : st :=
  mk_st (lock s) (idle s) (busy s) b (nw s) (ws s) (mn s) (started s) (ended s) (refused s) (poolclosed s).
Definition set_w (s : st) (i : nat) (w : worker) : st :=
  mk_st (lock s) (idle s) (busy s) (closed s) (nw s) (updw (ws s) i w) (mn s) (started s) (ended s) (refused s) (poolclosed s).

Definition mpc_of (m : main) (p : mpc) : main := mk_main p (m_next m) (m_w m) (m_lenb m) (m_snap m).
Definition goto (s : st) (p : mpc) : st := set_main s (mpc_of (mn s) p).

(* the submit currently in progress is over: advance to the next operation *)
Definition finish_submit (c : cfg) (s : st) : st :=
  let m := mn s in
  set_main s (mk_main (after_submit c (S (m_next m))) (S (m_next m)) (m_w m) (m_lenb m) (m_snap m)).

Definition close_after_notify1 (c : cfg) : mpc := if lk_close1 (lk c) then CRel1 else if lk_close2 (lk c) then CAcq2 else CSwapIdle.

(* ---- one step of the accept-loop thread; None = not enabled ---- *)
Definition main_step (c : cfg) (ch : nat) (s : st) : option st :=
  let m := mn s in
  match m_pc m with
  | MAcq => match lock s with None => Some (goto (set_lock s (Some 0)) MClosedRd) | Some _ => None end
  | MClosedRd =>
      if closed s then
        let s1 := mk_st (lock s) (idle s) (busy s) (closed s) (nw s) (ws s) (mn s) (started s) (ended s) (refused s)
                        (poolclosed s ++ [m_next m]) in
        Some (if lk_process (lk c) then goto s1 MRelClosed else finish_submit c s1)
      else Some (goto s MIdleBool)
  | MIdleBool => Some (goto s (match idle s with [] => MLenBusy | _ => MPop end))
  | MPop =>
      match idle s with
      | [] => Some (goto s MDone)                                (* KeyError: the accept loop dies *)
      | _ => let w := pick ch (idle s) in
             Some (set_main (set_idle s (remove_nat w (idle s))) (mk_main MBusyAdd (m_next m) w (m_lenb m) (m_snap m)))
      end
  | MLenBusy => Some (set_main s (mk_main MLenIdle (m_next m) (m_w m) (length (busy s)) (m_snap m)))
  | MLenIdle =>
      if Nat.ltb (m_lenb m + length (idle s)) (size c) then Some (goto s MSpawn)
      else Some (if lk_process (lk c) then goto s MRelRefuse else goto s MDeny)
  | MSpawn =>
      let i := nw s in
      Some (mk_st (lock s) (idle s) (busy s) (closed s) (S i) (updw (ws s) i worker0)
                  (mk_main MBusyAdd (m_next m) i (m_lenb m) (m_snap m))
                  (started s) (ended s) (refused s) (poolclosed s))
  | MBusyAdd => Some (goto (set_busy s (if mem_nat (m_w m) (busy s) then busy s else busy s ++ [m_w m])) MSlotWr)
  | MSlotWr => Some (goto (set_w s (m_w m) (set_slot (ws s (m_w m)) (Some (m_next m)))) MEvSet)
  | MEvSet =>
      let s1 := set_w s (m_w m) (set_ev (ws s (m_w m)) true) in
      Some (if lk_process (lk c) then goto s1 MRelOk else finish_submit c s1)
  | MRelOk => Some (finish_submit c (set_lock s None))
  | MRelClosed => Some (finish_submit c (set_lock s None))
  | MRelRefuse => Some (goto (set_lock s None) MDeny)
  | MDeny =>
      Some (finish_submit c (mk_st (lock s) (idle s) (busy s) (closed s) (nw s) (ws s) (mn s) (started s) (ended s)
                                   (refused s ++ [m_next m]) (poolclosed s)))
  | CClosedRd => if closed s then Some (goto s MDone)
                 else Some (goto s (if lk_close1 (lk c) then CAcq1 else CIterBusy))
  | CAcq1 => match lock s with None => Some (goto (set_lock s (Some 0)) CIterBusy) | Some _ => None end
  | CIterBusy =>
      Some (set_main s (mk_main (match busy s with [] => CIterIdle | _ => CSlot1 end) (m_next m) (m_w m) (m_lenb m) (busy s)))
  | CSlot1 =>
      match m_snap m with
      | [] => Some (goto s CIterIdle)
      | w :: _ => Some (goto (set_w s w (set_slot (ws s w) None)) CEv1)
      end
  | CEv1 =>
      match m_snap m with
      | [] => Some (goto s CIterIdle)
      | w :: rest => Some (set_main (set_w s w (set_ev (ws s w) true))
                                    (mk_main (match rest with [] => CIterIdle | _ => CSlot1 end) (m_next m) (m_w m) (m_lenb m) rest))
      end
  | CIterIdle =>
      Some (set_main s (mk_main (match idle s with [] => CClosedWr | _ => CSlot2 end) (m_next m) (m_w m) (m_lenb m) (idle s)))
  | CSlot2 =>
      match m_snap m with
      | [] => Some (goto s CClosedWr)
      | w :: _ => Some (goto (set_w s w (set_slot (ws s w) None)) CEv2)
      end
  | CEv2 =>
      match m_snap m with
      | [] => Some (goto s CClosedWr)
      | w :: rest => Some (set_main (set_w s w (set_ev (ws s w) true))
                                    (mk_main (match rest with [] => CClosedWr | _ => CSlot2 end) (m_next m) (m_w m) (m_lenb m) rest))
      end
  | CClosedWr => Some (goto (set_closed s true) (close_after_notify1 c))
  | CRel1 => Some (goto (set_lock s None) (if lk_close2 (lk c) then CAcq2 else CSwapIdle))
  | CAcq2 => match lock s with None => Some (goto (set_lock s (Some 0)) CSwapIdle) | Some _ => None end
  | CSwapIdle => Some (goto (set_idle s []) CSwapBusy)
  | CSwapBusy => Some (goto (set_busy s []) (if lk_close2 (lk c) then CRel2 else MDone))
  | CRel2 => Some (goto (set_lock s None) MDone)
  | MDone => None
  end.

(* ---- one step of Worker i (thread i+1) ---- *)
Definition notify_exit (c : cfg) : wpc := if lk_notify (lk c) then WRel else WWait.

Definition worker_step (c : cfg) (i : nat) (s : st) : option st :=
  let w := ws s i in
  let t := S i in
  match w_pc w with
  | WWait => if w_ev w then Some (set_w s i (set_pc w WClear)) else None
  | WClear => Some (set_w s i (set_pc (set_ev w false) WRead1))
  | WRead1 => Some (set_w s i (set_pc w (match w_slot w with None => WExit | Some _ => WRead2 end)))
  | WRead2 =>
      match w_slot w with
      | None => Some (set_w s i (set_pc w WSlotClr))             (* `None()` : TypeError, logged by run() *)
      | Some j =>
          Some (mk_st (lock s) (idle s) (busy s) (closed s) (nw s)
                      (updw (ws s) i (mk_worker WJobEnd (w_slot w) (w_ev w) (Some j) (w_found w) (w_crash w)))
                      (mn s) (started s ++ [j]) (ended s) (refused s) (poolclosed s))
      end
  | WJobEnd =>
      match w_cur w with
      | None => Some (set_w s i (set_pc w WSlotClr))
      | Some j =>
          Some (mk_st (lock s) (idle s) (busy s) (closed s) (nw s)
                      (updw (ws s) i (mk_worker WSlotClr (w_slot w) (w_ev w) None (w_found w) (w_crash w)))
                      (mn s) (started s) (ended s ++ [j]) (refused s) (poolclosed s))
      end
  | WSlotClr => Some (set_w s i (set_pc (set_slot w None) (if lk_notify (lk c) then WAcq else WContains)))
  | WAcq => match lock s with None => Some (set_w (set_lock s (Some t)) i (set_pc w WContains)) | Some _ => None end
  | WContains =>
      let b := mem_nat i (busy s) in
      Some (set_w s i (mk_worker (if b then WRemove else WClosedRd) (w_slot w) (w_ev w) (w_cur w) b (w_crash w)))
  | WRemove =>
      if mem_nat i (busy s) then Some (set_w (set_busy s (remove_nat i (busy s))) i (set_pc w WClosedRd))
      else (* KeyError: the worker thread dies (the with-statement still releases the lock) *)
        Some (set_w s i (mk_worker (if lk_notify (lk c) then WRel else WExit) (w_slot w) (w_ev w) (w_cur w) (w_found w) true))
  | WClosedRd => Some (set_w s i (set_pc w (if closed s then WRetSlot else WLenIdle)))
  | WLenIdle => Some (set_w s i (set_pc w (if Nat.leb (minw c) (length (idle s)) then WRetSlot else WIdleAdd)))
  | WIdleAdd => Some (set_w (set_idle s (if mem_nat i (idle s) then idle s else idle s ++ [i])) i (set_pc w (notify_exit c)))
  | WRetSlot => Some (set_w s i (set_pc (set_slot w None) WRetEv))
  | WRetEv => Some (set_w s i (set_pc (set_ev w true) (notify_exit c)))
  | WRel => Some (set_w (set_lock s None) i (set_pc w (if w_crash w then WExit else WWait)))
  | WExit => None
  end.

Definition step_opt (c : cfg) (t ch : nat) (s : st) : option st :=
  match t with
  | 0 => main_step c ch s
  | S i => if Nat.ltb i (nw s) then worker_step c i s else None
  end.
Definition step (c : cfg) (tc : nat * nat) (s : st) : st :=
  match step_opt c (fst tc) (snd tc) s with Some s' => s' | None => s end.
Definition run (c : cfg) (sched : list (nat * nat)) (s : st) : st := fold_left (fun s tc => step c tc s) sched s.

(* Pool.__init__: MIN workers, all idle, all waiting *)
Definition init (c : cfg) : st :=
  mk_st None (seq 0 (minw c)) [] false (minw c) (fun _ => worker0)
        (mk_main (main_start c) 0 0 0 []) [] [] [] [].

Definition wf_cfg (c : cfg) : Prop := 1 <= minw c /\ minw c <= size c.

(* ---- primitive codes, compared step by step with the implementation's trace ---- *)
Definition mcode (p : mpc) : nat :=
  match p with
  | MAcq | CAcq1 | CAcq2 => 1 | MRelOk | MRelRefuse | MRelClosed | CRel1 | CRel2 => 2
  | MClosedRd | CClosedRd => 3 | CClosedWr => 4 | MIdleBool => 5 | MPop => 6 | MLenBusy => 7 | MLenIdle => 8
  | MSpawn => 9 | MBusyAdd => 10 | MSlotWr | CSlot1 | CSlot2 => 11 | MEvSet | CEv1 | CEv2 => 12
  | MDeny => 22 | CIterBusy => 20 | CIterIdle => 21 | CSwapIdle => 23 | CSwapBusy => 24 | MDone => 0
  end.
Definition wcode (p : wpc) : nat :=
  match p with
  | WWait => 13 | WClear => 14 | WRead1 | WRead2 => 15 | WJobEnd => 16 | WSlotClr | WRetSlot => 11
  | WAcq => 1 | WRel => 2 | WContains => 17 | WRemove => 18 | WClosedRd => 3 | WLenIdle => 8 | WIdleAdd => 19
  | WRetEv => 12 | WExit => 0
  end.
(* trace of effective steps: (thread, primitive code); 0 = the scheduled thread was not enabled *)
Definition code_of (t : nat) (s : st) : nat :=
  match t with 0 => mcode (m_pc (mn s)) | S i => wcode (w_pc (ws s i)) end.
Fixpoint trace (c : cfg) (sched : list (nat * nat)) (s : st) : list nat :=
  match sched with
  | [] => []
  | tc :: r =>
      match step_opt c (fst tc) (snd tc) s with
      | Some s' => code_of (fst tc) s :: trace c r s'
      | None => 0 :: trace c r s
      end
  end.
