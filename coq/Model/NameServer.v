(* C14 — the name server as a map: specification, the NameServer class over a pluggable
   storage, the in-memory storage and the sqlite storage (two tables, every storage method
   one transaction made of statements).  Definitions only.

   Conventions.  Text is [list N] of code points.  A set of tags is a duplicate-free list.
   Python dict / set iteration order and sqlite row order are NOT part of what the name
   server answers (answers are dicts and sets); every finite map is represented as an
   association list in which an overwritten key moves to the end, and answers are compared
   after sorting (Harness/H14.v).  Python's [re] is an oracle: a regex argument carries the
   list of names it matches.  sqlite's transaction machinery is an oracle: a transaction is a
   list of statements run on a working copy that replaces the database only if no statement
   failed. *)
From Coq Require Import List NArith Arith Bool.
Import ListNotations.
From V Require Import Model.Bytes.
Local Open Scope N_scope.

Definition text := list N.
Definition text_eqb : text -> text -> bool := bytes_eqb.
Definition tagset := list text.
Definition entry := (text * tagset)%type.             (* uri, tags *)
Definition dict := list (text * entry).               (* name -> (uri, tags); unique names *)
Definition rdict := list (text * (text * option tagset)).   (* an answer: name -> uri [, tags] *)

Fixpoint tmem (x : text) (l : list text) : bool :=
  match l with [] => false | y :: l' => text_eqb y x || tmem x l' end.
Fixpoint dedup (l : list text) : list text :=
  match l with [] => [] | x :: l' => if tmem x l' then dedup l' else x :: dedup l' end.
Definition subsetb (a b : list text) : bool := forallb (fun t => tmem t b) a.
Definition meetsb (a b : list text) : bool := existsb (fun t => tmem t b) a.

(* str.startswith: literal, case-sensitive *)
Fixpoint prefixb (p n : text) : bool :=
  match p, n with
  | [], _ => true
  | x :: p', y :: n' => (x =? y) && prefixb p' n'
  | _ :: _, [] => false
  end.

(* sqlite's LIKE without ESCAPE: % any sequence, _ any one character, ASCII letters fold *)
Definition lower (c : N) : N := if (65 <=? c) && (c <=? 90) then c + 32 else c.
Fixpoint like (p s : text) : bool :=
  match p with
  | [] => match s with [] => true | _ => false end
  | c :: p' =>
    if c =? 37 then
      (fix try (s : text) : bool := like p' s || match s with [] => false | _ :: s' => try s' end) s
    else match s with
         | [] => false
         | x :: s' => ((c =? 95) || (lower c =? lower x)) && like p' s'
         end
  end.

(* ---- known deviations of the code from the property (DESIGN section 7 row 5) ---- *)
Record quirks := { q_sql_like_prefix : bool;      (* sqlite prefix filter is `name LIKE prefix||'%'` *)
                   q_sql_meta_all_dups : bool;    (* HAVING COUNT(metadata) = len(list with duplicates) *)
                   q_remove_empty_name : bool }.  (* remove(name="") treats the name as not given *)
Definition quirks_none : quirks := {| q_sql_like_prefix := false; q_sql_meta_all_dups := false; q_remove_empty_name := false |}.

(* ---- operations and answers ---- *)
Inductive regex := Rx (src : text) (compiled : option (list text)).  (* None: re.error; Some l: the names it matches *)
Inductive ns_op :=
| OpRegister (n u : text) (safe : bool) (meta : option (list text))
| OpRemove (name prefix : option text) (rx : option regex)
| OpSetMeta (n : text) (meta : option (list text))
| OpLookup (n : text) (wm : bool)
| OpList (prefix : option text) (rx : option regex) (wm : bool)
| OpYp (all any : option (list text)) (wm : bool)
| OpCount.

Inductive nerr := NUnknown | NAlready | NBadRegex.
Inductive out :=
| OOk | OCount (n : N) | OUri (u : text) (m : option tagset) | ODict (d : rdict)
| ONamingError (k : nerr) | OValueError
| OStorageError            (* NamingError("sqlite error in ...") *)
| OInternal.               (* an exception the API does not document (KeyError ...) *)

(* python truthiness of optional arguments *)
Definition nonempty {A} (o : option (list A)) : option (list A) :=
  match o with Some ((_ :: _) as l) => Some l | _ => None end.
Definition rx_truthy (r : option regex) : option regex :=
  match r with Some (Rx [] _) => None | x => x end.
Definition norm_meta (m : option (list text)) : tagset :=
  match m with Some l => dedup l | None => [] end.

(* ---- finite map primitives ---- *)
Fixpoint d_find (n : text) (d : dict) : option entry :=
  match d with [] => None | (k, e) :: d' => if text_eqb k n then Some e else d_find n d' end.
Definition d_has (n : text) (d : dict) : bool := match d_find n d with Some _ => true | None => false end.
Definition d_del (n : text) (d : dict) : dict := filter (fun kv => negb (text_eqb (fst kv) n)) d.
Definition d_set (n : text) (e : entry) (d : dict) : dict := d_del n d ++ [(n, e)].
Definition view1 (wm : bool) (kv : text * entry) : text * (text * option tagset) :=
  (fst kv, (fst (snd kv), if wm then Some (snd (snd kv)) else None)).
Definition view (wm : bool) (d : dict) : rdict := map (view1 wm) d.
Definition keep (P : text -> bool) (d : dict) : dict := filter (fun kv => P (fst kv)) d.
Definition keep_tags (P : tagset -> bool) (d : dict) : dict := filter (fun kv => P (snd (snd kv))) d.

(* =====================================================================================
   Specification: a simple map from names to (URI, set of tags)
   ===================================================================================== *)
Section Spec.
Variable ns : text.                      (* core.NAMESERVER_NAME *)

Inductive filt := FNone | FPrefix (p : text) | FRegex (l : list text) | FBadRegex.
Definition remove_filter (prefix : option text) (rx : option regex) : filt :=
  match nonempty prefix with
  | Some p => FPrefix p
  | None => match rx_truthy rx with
            | Some (Rx _ (Some l)) => FRegex l
            | Some (Rx _ None) => FBadRegex
            | None => FNone
            end
  end.
Definition victim (P : text -> bool) (n : text) : bool := P n && negb (text_eqb n ns).
Definition spec_remove_by (P : text -> bool) (s : dict) : dict * out :=
  (keep (fun n => negb (victim P n)) s, OCount (Nlen (keep (victim P) s))).

Definition spec_step (s : dict) (op : ns_op) : dict * out :=
  match op with
  | OpRegister n u safe meta =>
      if safe && d_has n s then (s, ONamingError NAlready) else (d_set n (u, norm_meta meta) s, OOk)
  | OpSetMeta n meta =>
      match d_find n s with
      | Some (u, _) => (d_set n (u, norm_meta meta) s, OOk)
      | None => (s, ONamingError NUnknown)
      end
  | OpLookup n wm =>
      match d_find n s with
      | Some (u, m) => (s, OUri u (if wm then Some m else None))
      | None => (s, ONamingError NUnknown)
      end
  | OpCount => (s, OCount (Nlen s))
  | OpRemove name prefix rx =>
      let by_filter :=
        match remove_filter prefix rx with
        | FNone => (s, OCount 0)
        | FBadRegex => (s, ONamingError NBadRegex)
        | FPrefix p => spec_remove_by (prefixb p) s
        | FRegex l => spec_remove_by (fun n => tmem n l) s
        end in
      match name with
      | Some n => if d_has n s && negb (text_eqb n ns) then (d_del n s, OCount 1) else by_filter
      | None => by_filter
      end
  | OpList prefix rx wm =>
      match nonempty prefix, rx_truthy rx with
      | Some _, Some _ => (s, OValueError)
      | Some p, None => (s, ODict (view wm (keep (prefixb p) s)))
      | None, Some (Rx _ None) => (s, ONamingError NBadRegex)
      | None, Some (Rx _ (Some l)) => (s, ODict (view wm (keep (fun n => tmem n l) s)))
      | None, None => (s, ODict (view wm s))
      end
  | OpYp all any wm =>
      match nonempty all, nonempty any with
      | Some _, Some _ => (s, OValueError)
      | Some a, None => (s, ODict (view wm (keep_tags (subsetb a) s)))
      | None, Some a => (s, ODict (view wm (keep_tags (meetsb a) s)))
      | None, None => (s, ODict [])
      end
  end.

Fixpoint spec_run (s : dict) (h : list ns_op) : dict * list out :=
  match h with
  | [] => (s, [])
  | op :: h' => let (s1, o) := spec_step s op in let (s2, os) := spec_run s1 h' in (s2, o :: os)
  end.
End Spec.

(* =====================================================================================
   Storage programs: statements, transactions, operations
   ===================================================================================== *)
Section Prog.
Variable St : Type.                         (* the storage state *)

(* one storage method = one transaction = a program of statements *)
Inductive prog (A : Type) : Type :=
| Ret (a : A)
| Query {B : Type} (q : St -> B) (k : B -> prog A)          (* a statement that only reads *)
| Exec {B : Type} (f : St -> B * St) (k : B -> prog A).      (* a statement that may write *)
Arguments Ret {A} a.
Arguments Query {A B} q k.
Arguments Exec {A B} f k.

(* failure injection: [Some k] = the statement executed after k more statements raises
   sqlite3.OperationalError; [None] = no failure *)
Definition tick (fuel : option nat) : option (option nat) :=
  match fuel with Some O => None | Some (S k) => Some (Some k) | None => Some None end.

Fixpoint run {A} (p : prog A) (fuel : option nat) (s : St) : option (A * St * option nat) :=
  match p with
  | Ret a => Some (a, s, fuel)
  | Query q k => match tick fuel with None => None | Some f' => run (k (q s)) f' s end
  | Exec f k => match tick fuel with
                | None => None
                | Some f' => let (b, s') := f s in run (k b) f' s'
                end
  end.

(* one NameServer method = a sequence of transactions with python glue in between *)
Inductive oprog (A : Type) : Type :=
| ORet (a : A)
| OTxn {B : Type} (p : prog B) (k : B -> oprog A).
Arguments ORet {A} a.
Arguments OTxn {A B} p k.

(* a failed transaction is rolled back (the state is the one before it) and the storage
   method raises NamingError, which no NameServer method catches: the operation ends *)
Fixpoint orun {A} (o : oprog A) (fuel : option nat) (s : St) : St * option A * option nat :=
  match o with
  | ORet a => (s, Some a, fuel)
  | OTxn p k => match run p fuel s with
                | Some (b, s', f') => orun (k b) f' s'
                | None => (s, None, None)
                end
  end.

(* number of statements an operation executes when nothing fails *)
Fixpoint nstmts {A} (p : prog A) (s : St) : nat :=
  match p with
  | Ret _ => O
  | Query q k => S (nstmts (k (q s)) s)
  | Exec f k => let (b, s') := f s in S (nstmts (k b) s')
  end.
Fixpoint prog_state {A} (p : prog A) (s : St) : A * St :=
  match p with
  | Ret a => (a, s)
  | Query q k => prog_state (k (q s)) s
  | Exec f k => let (b, s') := f s in prog_state (k b) s'
  end.
Fixpoint onstmts {A} (o : oprog A) (s : St) : nat :=
  match o with
  | ORet _ => O
  | OTxn p k => let (b, s') := prog_state p s in (nstmts p s + onstmts (k b) s')%nat
  end.

(* ---- the storage interface the NameServer class uses ---- *)
Record storage := {
  st_contains : text -> prog bool;
  st_getitem : text -> prog (option entry);             (* None = KeyError *)
  st_setitem : text -> text -> tagset -> prog unit;
  st_delitem : text -> prog unit;
  st_len : prog N;
  st_iter : prog (list text);
  st_everything : bool -> prog rdict;
  st_remove_items : list text -> prog unit;
  st_opt_prefix : option (text -> bool -> prog rdict);            (* optimized_prefix_list *)
  st_opt_meta : option (bool -> list text -> bool -> prog rdict)  (* optimized_metadata_search: all?, tags, return_metadata *)
}.

(* =====================================================================================
   class NameServer, written once over the storage interface
   ===================================================================================== *)
Section NS.
Variable ns : text.
Variable q : quirks.
Variable st : storage.

(* for name in self.storage: if P(name): result[name] = self.storage[name] (or [0]) *)
Fixpoint collect (wm : bool) (P : text -> bool) (names : list text) (acc : rdict)
                 (k : rdict -> oprog out) : oprog out :=
  match names with
  | [] => k acc
  | n :: rest =>
      if P n then
        OTxn (st_getitem st n) (fun r =>
          match r with
          | Some (u, m) => collect wm P rest (acc ++ [(n, (u, if wm then Some m else None))]) k
          | None => ORet OInternal
          end)
      else collect wm P rest acc k
  end.

(* NameServer.list, continuation-passing *)
Definition list_k (prefix : option text) (rx : option regex) (wm : bool) (k : rdict -> oprog out) : oprog out :=
  match nonempty prefix, rx_truthy rx with
  | Some _, Some _ => ORet OValueError
  | Some p, None =>
      match st_opt_prefix st with
      | Some f => OTxn (f p wm) k
      | None => OTxn (st_iter st) (fun names => collect wm (prefixb p) names [] k)
      end
  | None, Some (Rx _ None) => ORet (ONamingError NBadRegex)
  | None, Some (Rx _ (Some l)) => OTxn (st_iter st) (fun names => collect wm (fun n => tmem n l) names [] k)
  | None, None => OTxn (st_everything st wm) k
  end.

(* list.remove: first occurrence *)
Fixpoint remove_first (x : text) (l : list text) : list text :=
  match l with [] => [] | y :: l' => if text_eqb y x then l' else y :: remove_first x l' end.

Definition remove_items_k (d : rdict) : oprog out :=
  let items := remove_first ns (map fst d) in
  OTxn (st_remove_items st items) (fun _ => ORet (OCount (Nlen items))).

Definition remove_rest (prefix : option text) (rx : option regex) : oprog out :=
  match nonempty prefix with
  | Some p => list_k (Some p) None false remove_items_k
  | None => match rx_truthy rx with
            | Some r => list_k None (Some r) false remove_items_k
            | None => ORet (OCount 0)
            end
  end.

(* `if name and ...` (quirk) versus `if name is not None and ...` *)
Definition name_given (name : option text) : option text :=
  match name with
  | Some [] => if q_remove_empty_name q then None else Some []
  | x => x
  end.

Definition tags_of (v : text * option tagset) : tagset := match snd v with Some m => m | None => [] end.
Definition yp_filter (P : tagset -> bool) (wm : bool) (d : rdict) : rdict :=
  map (fun kv => (fst kv, (fst (snd kv), if wm then Some (tags_of (snd kv)) else None)))
      (filter (fun kv => P (tags_of (snd kv))) d).

Definition ns_prog (op : ns_op) : oprog out :=
  match op with
  | OpCount => OTxn (st_len st) (fun n => ORet (OCount n))
  | OpLookup n wm =>
      OTxn (st_getitem st n) (fun r =>
        match r with
        | Some (u, m) => ORet (OUri u (if wm then Some m else None))
        | None => ORet (ONamingError NUnknown)
        end)
  | OpRegister n u safe meta =>
      let set := OTxn (st_setitem st n u (norm_meta meta)) (fun _ => ORet OOk) in
      if safe then OTxn (st_contains st n) (fun b => if b then ORet (ONamingError NAlready) else set)
      else set
  | OpSetMeta n meta =>
      OTxn (st_getitem st n) (fun r =>
        match r with
        | Some (u, _) => OTxn (st_setitem st n u (norm_meta meta)) (fun _ => ORet OOk)
        | None => ORet (ONamingError NUnknown)
        end)
  | OpRemove name prefix rx =>
      match name_given name with
      | Some n =>
          OTxn (st_contains st n) (fun b =>
            if b && negb (text_eqb n ns)
            then OTxn (st_delitem st n) (fun _ => ORet (OCount 1))
            else remove_rest prefix rx)
      | None => remove_rest prefix rx
      end
  | OpList prefix rx wm => list_k prefix rx wm (fun d => ORet (ODict d))
  | OpYp all any wm =>
      match nonempty all, nonempty any with
      | Some _, Some _ => ORet OValueError
      | Some a, None =>
          match st_opt_meta st with
          | Some f => OTxn (f true a wm) (fun d => ORet (ODict d))
          | None => OTxn (st_everything st true) (fun d => ORet (ODict (yp_filter (subsetb a) wm d)))
          end
      | None, Some a =>
          match st_opt_meta st with
          | Some f => OTxn (f false a wm) (fun d => ORet (ODict d))
          | None => OTxn (st_everything st true) (fun d => ORet (ODict (yp_filter (meetsb a) wm d)))
          end
      | None, None => ORet (ODict [])
      end
  end.

Definition answer (r : option out) : out := match r with Some o => o | None => OStorageError end.

(* one operation with an optional failure point; returns the new state and the answer *)
Definition ns_step (fuel : option nat) (s : St) (op : ns_op) : St * out :=
  let '(s', r, _) := orun (ns_prog op) fuel s in (s', answer r).

Fixpoint ns_run (s : St) (h : list ns_op) : St * list out :=
  match h with
  | [] => (s, [])
  | op :: h' => let (s1, o) := ns_step None s op in let (s2, os) := ns_run s1 h' in (s2, o :: os)
  end.
End NS.
End Prog.

Arguments Ret {St A} a.
Arguments Query {St A B} q k.
Arguments Exec {St A B} f k.
Arguments ORet {St A} a.
Arguments OTxn {St A B} p k.
Arguments run {St A} p fuel s.
Arguments orun {St A} o fuel s.
Arguments nstmts {St A} p s.
Arguments prog_state {St A} p s.
Arguments onstmts {St A} o s.
Arguments ns_prog {St} ns q st op.
Arguments ns_step {St} ns q st fuel s op.
Arguments ns_run {St} ns q st s h.
Arguments collect {St} st wm P names acc k.
Arguments list_k {St} st prefix rx wm k.
Arguments remove_items_k {St} ns st d.
Arguments remove_rest {St} ns st prefix rx.

(* =====================================================================================
   MemoryStorage(dict): every method is one indivisible step
   ===================================================================================== *)
Definition mem_remove_items (items : list text) (s : dict) : dict :=
  fold_left (fun s i => if d_has i s then d_del i s else s) items s.

Definition mem_storage : storage dict := {|
  st_contains n := Query (d_has n) Ret;
  st_getitem n := Query (d_find n) Ret;
  st_setitem n u m := Exec (fun s => (tt, d_set n (u, m) s)) Ret;
  st_delitem n := Exec (fun s => (tt, d_del n s)) Ret;
  st_len := Query (fun s => Nlen s) Ret;
  st_iter := Query (fun s => map fst s) Ret;
  st_everything wm := Query (view wm) Ret;
  st_remove_items items := Exec (fun s => (tt, mem_remove_items items s)) Ret;
  st_opt_prefix := None;
  st_opt_meta := None
|}.

Definition mem_step (ns : text) (q : quirks) : dict -> ns_op -> dict * out := ns_step ns q mem_storage None.
Definition mem_run (ns : text) (q : quirks) : dict -> list ns_op -> dict * list out := ns_run ns q mem_storage.

(* =====================================================================================
   SqlStorage: tables pyro_names(id, name, uri) and pyro_metadata(object, metadata)
   ===================================================================================== *)
Definition nrow := (N * text * text)%type.
Definition row_id (r : nrow) : N := fst (fst r).
Definition row_name (r : nrow) : text := snd (fst r).
Definition row_uri (r : nrow) : text := snd r.
Record tables := { t_names : list nrow; t_meta : list (N * text) }.
Definition tables_empty : tables := {| t_names := []; t_meta := [] |}.

(* SELECT ... FROM pyro_names WHERE name=?  (fetchone) *)
Definition q_row (n : text) (t : tables) : option nrow :=
  find (fun r => text_eqb (row_name r) n) (t_names t).
Definition q_id (n : text) (t : tables) : option N := option_map row_id (q_row n t).
(* SELECT metadata FROM pyro_metadata WHERE object=? *)
Definition q_tags (i : N) (t : tables) : tagset :=
  map snd (filter (fun mr => fst mr =? i) (t_meta t)).
(* integer PRIMARY KEY without AUTOINCREMENT: max(rowid)+1 *)
Definition max_id (l : list nrow) : N := fold_right (fun r m => N.max (row_id r) m) 0 l.
Definition e_ins_name (n u : text) (t : tables) : N * tables :=
  let i := max_id (t_names t) + 1 in (i, {| t_names := t_names t ++ [(i, n, u)]; t_meta := t_meta t |}).
Definition e_ins_meta (i : N) (m : text) (t : tables) : unit * tables :=
  (tt, {| t_names := t_names t; t_meta := t_meta t ++ [(i, m)] |}).
Definition e_del_meta (i : N) (t : tables) : unit * tables :=
  (tt, {| t_names := t_names t; t_meta := filter (fun mr => negb (fst mr =? i)) (t_meta t) |}).
Definition e_del_name (i : N) (t : tables) : unit * tables :=
  (tt, {| t_names := filter (fun r => negb (row_id r =? i)) (t_names t); t_meta := t_meta t |}).

Section Sql.
Variable q : quirks.
Notation sprog := (prog tables).

(* PRAGMA foreign_keys=ON and db.commit(): statements without effect on the tables
   (they still are failure points) *)
Definition nop {A} (k : sprog A) : sprog A := Query (fun _ : tables => tt) (fun _ => k).

Definition del_by_id {A} (i : N) (k : sprog A) : sprog A :=
  Exec (e_del_meta i) (fun _ => Exec (e_del_name i) (fun _ => k)).
Fixpoint ins_tags {A} (i : N) (ms : list text) (k : sprog A) : sprog A :=
  match ms with [] => k | m :: r => Exec (e_ins_meta i m) (fun _ => ins_tags i r k) end.

Definition sql_setitem (n u : text) (m : tagset) : sprog unit :=
  nop (Query (q_id n) (fun r =>
    let insert := Exec (e_ins_name n u) (fun i => ins_tags i m (nop (Ret tt))) in
    match r with Some i => del_by_id i insert | None => insert end)).

Definition sql_delitem (n : text) : sprog unit :=
  nop (Query (q_id n) (fun r =>
    match r with Some i => del_by_id i (nop (Ret tt)) | None => nop (Ret tt) end)).

Fixpoint sql_remove_loop (items : list text) (k : sprog unit) : sprog unit :=
  match items with
  | [] => k
  | n :: rest => Query (q_id n) (fun r =>
      match r with Some i => del_by_id i (sql_remove_loop rest k) | None => sql_remove_loop rest k end)
  end.
Definition sql_remove_items (items : list text) : sprog unit :=
  nop (sql_remove_loop items (nop (Ret tt))).

Definition sql_getitem (n : text) : sprog (option entry) :=
  Query (q_row n) (fun r =>
    match r with
    | Some row => Query (q_tags (row_id row)) (fun m => Ret (Some (row_uri row, m)))
    | None => Ret None
    end).

(* for dbid, name, uri in rows: metadata = SELECT ... ; names[name] = uri, metadata *)
Fixpoint with_tags (rows : list nrow) (acc : rdict) : sprog rdict :=
  match rows with
  | [] => Ret acc
  | r :: rest => Query (q_tags (row_id r)) (fun m => with_tags rest (acc ++ [(row_name r, (row_uri r, Some m))]))
  end.
Definition rows_answer (wm : bool) (rows : tables -> list nrow) : sprog rdict :=
  Query rows (fun rs =>
    if wm then with_tags rs [] else Ret (map (fun r => (row_name r, (row_uri r, None))) rs)).

Definition sql_prefix_match (p n : text) : bool :=
  if q_sql_like_prefix q then like (p ++ [37]) n else prefixb p n.
Definition q_prefix (p : text) (t : tables) : list nrow :=
  filter (fun r => sql_prefix_match p (row_name r)) (t_names t).

(* SELECT object FROM pyro_metadata WHERE metadata IN (...) [GROUP BY object HAVING COUNT(metadata)=?] *)
Definition hits (tags : list text) (i : N) (t : tables) : N :=
  Nlen (filter (fun mr => (fst mr =? i) && tmem (snd mr) tags) (t_meta t)).
Definition q_meta (all : bool) (tags : list text) (t : tables) : list nrow :=
  if all then
    let want := if q_sql_meta_all_dups q then Nlen tags else Nlen (dedup tags) in
    filter (fun r => (0 <? hits tags (row_id r) t) && (hits tags (row_id r) t =? want)) (t_names t)
  else filter (fun r => 0 <? hits tags (row_id r) t) (t_names t).

Definition sql_storage : storage tables := {|
  st_contains n := Query (fun t => match q_row n t with Some _ => true | None => false end) Ret;
  st_getitem := sql_getitem;
  st_setitem := sql_setitem;
  st_delitem := sql_delitem;
  st_len := Query (fun t => Nlen (t_names t)) Ret;
  st_iter := Query (fun t => map row_name (t_names t)) Ret;
  st_everything wm := rows_answer wm t_names;
  st_remove_items := sql_remove_items;
  st_opt_prefix := Some (fun p wm => rows_answer wm (q_prefix p));
  st_opt_meta := Some (fun all tags wm => rows_answer wm (q_meta all tags))
|}.
End Sql.

Definition sql_step (ns : text) (q : quirks) (fuel : option nat) : tables -> ns_op -> tables * out :=
  ns_step ns q (sql_storage q) fuel.
Definition sql_run (ns : text) (q : quirks) : tables -> list ns_op -> tables * list out :=
  ns_run ns q (sql_storage q).
Definition sql_nstmts (ns : text) (q : quirks) (t : tables) (op : ns_op) : nat :=
  onstmts (ns_prog ns q (sql_storage q) op) t.

(* SqlStorage(dbfile) on an existing database: two SELECT COUNT probes, nothing written *)
Definition reopen (t : tables) : tables := t.

(* abstraction: the join of the two tables *)
Definition abs_row (t : tables) (r : nrow) : text * entry := (row_name r, (row_uri r, q_tags (row_id r) t)).
Definition abs (t : tables) : dict := map (abs_row t) (t_names t).

(* =====================================================================================
   Invariants used in the statements of the theorems
   ===================================================================================== *)
(* a well-formed map: unique names, every tag set duplicate-free *)
Definition dict_ok (d : dict) : Prop :=
  NoDup (map fst d) /\ forall kv, In kv d -> NoDup (snd (snd kv)).
(* the two tables: unique ids, unique names, every id below the next rowid is the only way ids
   are made (max+1), metadata rows reference live ids, no duplicate (object, tag) row *)
Definition inv (t : tables) : Prop :=
  NoDup (map row_id (t_names t)) /\ NoDup (map row_name (t_names t)) /\
  (forall mr, In mr (t_meta t) -> In (fst mr) (map row_id (t_names t))) /\
  NoDup (t_meta t).

(* the statement structure the model of SqlStorage assumes, compared with the table generated from the
   source (Gen/GenNameServer.v: sql_methods = first occurrences of the statements each method executes, helper
   calls followed; order getitem, setitem, len, contains, delitem, iter, optimized_prefix_list,
   optimized_metadata_search, remove_items, everything).  What the theorems need: the three WRITING methods run
   exactly the modelled statements with the commit last; the READING methods only contain SELECTs (which SELECTs,
   and how many, is incidental: their answers are compared by the harness).  20 = a SELECT with unknown text. *)
Definition sql_read_codes : list N := [2; 3; 4; 9; 10; 11; 12; 13; 14; 15; 16; 20].
Definition sql_reads_only (m : list N) : bool :=
  match m with [] => false | _ => forallb (fun c => existsb (N.eqb c) sql_read_codes) m end.
Definition sql_shape_ok (ms : list (list N)) : bool :=
  match ms with
  | [g; s; l; c; d; i; p; m; r; e] =>
      forallb sql_reads_only [g; l; c; i; p; m; e] &&
      bytes_eqb s [1; 4; 5; 6; 7; 8; 99] && bytes_eqb d [1; 4; 5; 6; 99] && bytes_eqb r [1; 4; 5; 6; 99]
  | _ => false
  end.
