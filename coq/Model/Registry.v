(* C16 — the daemon's object registry (Pyro5/server.py: Daemon.register / unregister /
   uriFor / proxyFor, _pyro_obj_to_auto_proxy, the weakref finalizer, DaemonObject.registered).
   Definitions only.

   State of the real code that is modelled:
     objectsById           reg   : association list  id -> (holder, weak?)
     obj._pyroId           pid   : target -> option ident        (own attribute of the object/class)
     obj._pyroDaemon       pd    : target -> bool                (present or not)
     weakref.finalize      fins  : pending finalizers (object slot, id), one per weak registration
     uuid ids              ngen  : how many generated ids have been handed out

   A [target] is what user code passes around: a pool object (PObj n) or a class (PCls n).
   The daemon's own interface object (DaemonObject) appears only as the holder [None] of an
   entry.  [step q] is the behaviour of the code; the record [q] switches each repaired
   defect back on ([quirks_none] = code with fixes/C16_all.diff, [quirks_all] = code before). *)
From Coq Require Import List Arith Bool.
Import ListNotations.

Inductive target := PObj (n : nat) | PCls (n : nat).
Inductive ident := IdDaemon | IdName (n : nat) | IdGen (n : nat).

Definition target_eqb (a b : target) : bool :=
  match a, b with
  | PObj x, PObj y => Nat.eqb x y
  | PCls x, PCls y => Nat.eqb x y
  | _, _ => false
  end.
Definition ident_eqb (a b : ident) : bool :=
  match a, b with
  | IdDaemon, IdDaemon => true
  | IdName x, IdName y => Nat.eqb x y
  | IdGen x, IdGen y => Nat.eqb x y
  | _, _ => false
  end.
Definition is_class (t : target) : bool := match t with PCls _ => true | PObj _ => false end.

(* holder: None = the daemon's own DaemonObject *)
Record entry := mk_entry { e_tgt : option target; e_weak : bool }.
Definition holds (e : entry) (t : target) : bool :=
  match e_tgt e with Some t' => target_eqb t' t | None => false end.

Definition registry := list (ident * entry).
Fixpoint lookup (i : ident) (l : registry) : option entry :=
  match l with
  | [] => None
  | (j, e) :: l' => if ident_eqb i j then Some e else lookup i l'
  end.
Fixpoint remove (i : ident) (l : registry) : registry :=
  match l with
  | [] => []
  | (j, e) :: l' => if ident_eqb i j then remove i l' else (j, e) :: remove i l'
  end.
Definition set (i : ident) (e : entry) (l : registry) : registry := (i, e) :: remove i l.
Definition mem (i : ident) (l : registry) : bool :=
  match lookup i l with Some _ => true | None => false end.

Record state := mk_state {
  reg : registry;
  pid : target -> option ident;
  pd : target -> bool;
  fins : list (nat * ident);
  ngen : nat }.

Definition upd {A} (f : target -> A) (t : target) (v : A) : target -> A :=
  fun x => if target_eqb x t then v else f x.

Definition init : state :=
  mk_state [(IdDaemon, mk_entry None false)] (fun _ => None) (fun _ => false) [] 0.

Record quirks := mk_quirks {
  q_unreg_id_keeps_daemon_mark : bool;   (* unregister("id") leaves _pyroDaemon on the object *)
  q_unreg_obj_trusts_stale_id : bool;    (* unregister(obj) removes whatever is registered under obj._pyroId *)
  q_force_keeps_displaced_marks : bool;  (* register(.., force=True) leaves the displaced object's marks *)
  q_weak_double_register : bool;         (* duplicate test compares the weakref with the object *)
  q_finalizer_unregisters_id : bool;     (* the finalizer of a weak registration unregisters the bare id *)
  q_uri_trusts_stale_id : bool }.        (* uriFor(obj)/proxyFor(obj) only test that obj._pyroId is a registered id *)
Definition quirks_none := mk_quirks false false false false false false.
Definition quirks_all := mk_quirks true true true true true true.

(* register's objectId argument: None / "" -> generated (uuid); the daemon's reserved name;
   another string; a truthy non-string.  (Registering explicitly under a string that equals a
   generated uuid is not modelled: generated ids are fresh.) *)
Inductive rid := RGen | RDaemon | RNamed (n : nat) | RBad.
Definition req_ident (n : nat) (r : rid) : ident :=
  match r with RDaemon => IdDaemon | RNamed k => IdName k | _ => IdGen n end.

Inductive event :=
| Register (t : target) (r : rid) (force weak : bool)
| UnregObj (t : target)
| UnregId (i : ident)
| UnregNone
| UriObj (t : target)
| UriId (i : ident)
| ProxyObj (t : target)
| ProxyId (i : ident)
| Call (i : ident)                 (* a client calls a method through PYRO:i@daemon *)
| Return (o : nat)                 (* a remote method returns pool object o *)
| Gc (o : nat)                     (* the application drops its last reference to pool object o *)
| Registered.                      (* DaemonObject.registered() *)

Inductive err := ETypeError | EValueError | EDaemonError | EAttributeError | EUnknownObject.

Inductive result :=
| ROk
| RUri (i : ident)                          (* register / uriFor / proxyFor: the id inside the URI *)
| RReached (h : option target)              (* whose method ran *)
| RProxy (i : ident) (h : option target)    (* arrived as a proxy for id i; a call through it ran on h *)
| RValue                                    (* arrived as plain data *)
| RIds (l : list ident)
| RGc (collected : bool)
| RErr (e : err).

Definition clear_marks (s : state) (t : target) : state :=
  mk_state (reg s) (upd (pid s) t None) (upd (pd s) t false) (fins s) (ngen s).

Definition pid_is (s : state) (t : target) (i : ident) : bool :=
  match pid s t with Some j => ident_eqb j i | None => false end.

(* unregister(objectId) with a string *)
Definition unreg_id (q : quirks) (s : state) (i : ident) : state :=
  if ident_eqb i IdDaemon then s else
  match lookup i (reg s) with
  | None => s
  | Some e =>
      let s1 := mk_state (remove i (reg s)) (pid s) (pd s) (fins s) (ngen s) in
      if q_unreg_id_keeps_daemon_mark q then s1 else
      match e_tgt e with
      | Some t => if pid_is s t i then mk_state (reg s1) (pid s1) (upd (pd s1) t false) (fins s1) (ngen s1) else s1
      | None => s1
      end
  end.

Definition unreg_obj (q : quirks) (s : state) (t : target) : state * result :=
  match pid s t with
  | None => (s, RErr EDaemonError)
  | Some i =>
      let ent := lookup i (reg s) in
      if negb (q_unreg_obj_trusts_stale_id q) && match ent with Some e => negb (holds e t) | None => false end
      then (s, RErr EDaemonError)
      else if ident_eqb i IdDaemon then (s, ROk)
      else match ent with
           | None => (s, ROk)
           | Some _ =>
               let s1 := mk_state (remove i (reg s)) (upd (pid s) t None) (upd (pd s) t false) (fins s) (ngen s) in
               if pd s t then (s1, ROk) else (s1, RErr EAttributeError)
           end
  end.

Definition dup_object (q : quirks) (s : state) (t : target) : bool :=
  match pid s t with
  | Some j => match lookup j (reg s) with
              | Some e => holds e t && negb (q_weak_double_register q && e_weak e)
              | None => false
              end
  | None => false
  end.

Definition displace (q : quirks) (s : state) (t : target) (i : ident) : state :=
  if q_force_keeps_displaced_marks q then s else
  match lookup i (reg s) with
  | Some e => match e_tgt e with
              | Some t' => if negb (target_eqb t' t) && pid_is s t' i then clear_marks s t' else s
              | None => s
              end
  | None => s
  end.

Definition register (q : quirks) (s : state) (t : target) (r : rid) (force weak : bool) : state * result :=
  match r with
  | RBad => (s, RErr ETypeError)
  | _ =>
    if is_class t && weak then (s, RErr ETypeError) else
    let i := req_ident (ngen s) r in
    if negb force && dup_object q s t then (s, RErr EDaemonError)
    else if negb force && mem i (reg s) then (s, RErr EDaemonError)
    else
      let s1 := if force then displace q s t i else s in
      let fins' := match t with
                   | PObj o => if weak then (o, i) :: fins s1 else fins s1
                   | PCls _ => fins s1
                   end in
      (mk_state (set i (mk_entry (Some t) weak) (reg s1)) (upd (pid s1) t (Some i)) (upd (pd s1) t true)
                fins' (match r with RGen => S (ngen s1) | _ => ngen s1 end),
       RUri i)
  end.

(* uriFor(obj) / proxyFor(obj): the id the object remembers, provided the registry entry under it IS the object *)
Definition uri_obj (q : quirks) (s : state) (t : target) : result :=
  match pid s t with
  | Some i => match lookup i (reg s) with
              | Some e => if holds e t || q_uri_trusts_stale_id q then RUri i else RErr EDaemonError
              | None => RErr EDaemonError
              end
  | None => RErr EDaemonError
  end.

Definition strongly_held (s : state) (o : nat) : bool :=
  existsb (fun ie => holds (snd ie) (PObj o) && negb (e_weak (snd ie))) (reg s).

(* one finalizer of the dead object o for id i *)
Definition run_finalizer (q : quirks) (o : nat) (s : state) (i : ident) : state :=
  if q_finalizer_unregisters_id q then unreg_id q s i else
  match lookup i (reg s) with
  | Some e => if holds e (PObj o) && e_weak e then unreg_id q s i else s
  | None => s
  end.

Definition gc (q : quirks) (s : state) (o : nat) : state * result :=
  if strongly_held s o then (s, RGc false) else
  let mine := map snd (filter (fun p => Nat.eqb (fst p) o) (fins s)) in
  let s1 := fold_left (run_finalizer q o) mine s in
  (mk_state (reg s1) (upd (pid s1) (PObj o) None) (upd (pd s1) (PObj o) false)
            (filter (fun p => negb (Nat.eqb (fst p) o)) (fins s1)) (ngen s1),
   RGc true).

Definition do_return (q : quirks) (s : state) (o : nat) : result :=
  if pd s (PObj o) then
    match pid s (PObj o) with
    | Some i => match lookup i (reg s) with
                | Some e => if holds e (PObj o) || q_uri_trusts_stale_id q then RProxy i (e_tgt e) else RErr EDaemonError
                | None => RErr EDaemonError
                end
    | None => RErr EDaemonError
    end
  else RValue.

Definition step (q : quirks) (s : state) (e : event) : state * result :=
  match e with
  | Register t r force weak => register q s t r force weak
  | UnregObj t => unreg_obj q s t
  | UnregId i => (unreg_id q s i, ROk)
  | UnregNone => (s, RErr EValueError)
  | UriObj t => (s, uri_obj q s t)
  | UriId i => (s, RUri i)
  | ProxyObj t => (s, uri_obj q s t)
  | ProxyId i => (s, if mem i (reg s) then RUri i else RErr EDaemonError)
  | Call i => (s, match lookup i (reg s) with Some e => RReached (e_tgt e) | None => RErr EUnknownObject end)
  | Return o => (s, do_return q s o)
  | Gc o => gc q s o
  | Registered => (s, RIds (map fst (reg s)))
  end.

Fixpoint run (q : quirks) (s : state) (h : list event) : state * list result :=
  match h with
  | [] => (s, [])
  | e :: h' => let '(s1, r) := step q s e in
               let '(s2, rs) := run q s1 h' in (s2, r :: rs)
  end.

Definition final (q : quirks) (h : list event) : state := fst (run q init h).
Definition results (q : quirks) (h : list event) : list result := snd (run q init h).

(* ---- vocabulary of the property ---- *)
Definition registered_at (s : state) (i : ident) (t : target) : Prop :=
  exists w, lookup i (reg s) = Some (mk_entry (Some t) w).
Definition is_registered (s : state) (t : target) : Prop := exists i, registered_at s i t.

(* "no aliasing": a forced registration is never applied to an object that is currently
   registered under another id (tests/test_daemon.py::testRegisterTwiceForced pins that such a
   registration keeps both ids; the object then only remembers the last one). *)
Definition aliasing (s : state) (e : event) : bool :=
  match e with
  | Register t r true w =>
      match r with
      | RBad => false
      | _ => if is_class t && w then false else
             let i := req_ident (ngen s) r in
             existsb (fun je => holds (snd je) t && negb (ident_eqb (fst je) i)) (reg s)
      end
  | _ => false
  end.
Fixpoint alias_free_from (s : state) (h : list event) : bool :=
  match h with
  | [] => true
  | e :: h' => negb (aliasing s e) && alias_free_from (fst (step quirks_none s e)) h'
  end.
Definition alias_free (h : list event) : bool := alias_free_from init h.

(* events that can end the registration of target t under id i *)
Definition touches (i : ident) (t : target) (e : event) : bool :=
  match e with
  | UnregId j => ident_eqb i j
  | UnregObj t' => target_eqb t t'
  | Register t' r true _ => match r with RDaemon | RNamed _ => ident_eqb i (req_ident 0 r) | _ => false end  (* forced, same id *)
  | Gc o => target_eqb t (PObj o)
  | _ => false
  end.

(* Per object: "t is never registered under two ids at once".  The only way to get there is a forced
   registration of t while t is registered under a different id.  (A forced WEAK registration of t under
   the daemon's reserved id is counted as well: the daemon refuses to forget that id, so a collected
   object would stay behind there; the harness does not generate it.) *)
Definition aliases (t : target) (s : state) (e : event) : bool :=
  match e with
  | Register t' r true w =>
      target_eqb t' t &&
      (existsb (fun je => holds (snd je) t && negb (ident_eqb (fst je) (req_ident (ngen s) r))) (reg s)
       || match r with RDaemon => w | _ => false end)
  | _ => false
  end.
Fixpoint unaliased_from (t : target) (s : state) (h : list event) : bool :=
  match h with
  | [] => true
  | e :: h' => negb (aliases t s e) && unaliased_from t (fst (step quirks_none s e)) h'
  end.
Definition unaliased (t : target) (h : list event) : bool := unaliased_from t init h.
