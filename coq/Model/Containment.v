(* C05 — the exception-routing skeleton of the two transport servers, as an interpreter
   over the generated handler tables (Gen/GenHandlers.v).  Definitions only.

   An exception is represented by the mro of its class ([exc] = list of class names), so an
   except clause matches iff one of its classes occurs in the mro; this covers classes that
   are not in any table (user-defined Exception subclasses).

   What is generated: for every try / contextlib.suppress site its ordered handlers with the
   action of each, finally presence, nesting; for every anchored call the innermost
   protecting site; the class tests of the error-reply handler.
   What is hand-modelled: which function calls which (the frames an exception passes on its
   way up), and what each function does after one of its handlers contained an exception. *)
From Coq Require Import List String Bool Arith.
Import ListNotations.
From V Require Import Model.ContainmentDefs.
Local Open Scope string_scope.

(* ------------------------------------------------------------------ matching *)
Definition mem (c : cls) (l : list cls) : bool := existsb (String.eqb c) l.
(* isinstance(e, tuple) *)
Definition is_any (e : exc) (cs : list cls) : bool := existsb (fun c => mem c e) cs.
Definition is_exception (e : exc) : bool := mem "Exception" e.

Definition propagates (a : action) : bool :=
  match a with AReraise | ARaiseNew => true | _ => false end.

Fixpoint first_match (hs : list (list cls * guard * action)) (e : exc) (atrecv : bool) : option action :=
  match hs with
  | [] => None
  | (cs, g, act) :: hs' => if is_any e cs && guard_ok g atrecv then Some act else first_match hs' e atrecv
  end.

Inductive caught := Caught (ord : nat) (act : action) | Uncaught.

(* one connection's observable answer to one message *)
Inductive rkind := ConnOk | ConnFail | RepNormal | RepError.

(* an exception surfacing in function [f_fn] at a statement whose innermost protecting site is [f_site];
   [f_recv]: that statement is the function's recv_stub call *)
Record fault := { f_fn : fn; f_site : option nat; f_recv : bool; f_exc : exc }.

(* [q_stream]: the method returned an iterator, which is answered with the item-stream error reply *)
Record req := { q_oneway : bool; q_callback : bool; q_stream : bool }.
Inductive evkind := EConnect | ERequest (q : req).
(* what a peer does next on connection [e_conn] and which exceptions that makes surface, in order *)
Record event := { e_conn : nat; e_kind : evkind; e_script : list fault }.

Record obs := { o_conn : nat; o_reply : option rkind; o_open : bool; o_hook : bool; o_left : nat }.

Inductive server := SThread | SMux.
(* [busy]: size of Pool.busy (thread server); [live]: connections being served = selector registrations (multiplex) *)
Record state := { alive : bool; busy : nat; live : list nat }.
Definition init : state := {| alive := true; busy := 0; live := [] |}.

Inductive res := RNorm (v : bool) | RExc (e : exc).

Definition remove_conn (c : nat) (l : list nat) : list nat := filter (fun x => negb (Nat.eqb x c)) l.
Definition has_conn (c : nat) (l : list nat) : bool := existsb (Nat.eqb c) l.

Section Interp.
Variable T : tables.

Definition find_site (f : fn) (ord : nat) : option site :=
  find (fun s => fn_eqb (s_fn s) f && Nat.eqb (s_ord s) ord) (t_sites T).
Definition find_anchor (f : fn) (k : ckind) (i : nat) : option anchor :=
  find (fun a => fn_eqb (a_fn a) f && ckind_eqb (a_kind a) k && Nat.eqb (a_idx a) i) (t_anchors T).
(* the site protecting a call; a call the extractor did not find counts as unprotected *)
Definition asite (f : fn) (k : ckind) (i : nat) : option nat :=
  match find_anchor f k i with Some a => a_site a | None => None end.

Definition fuel : nat := S (List.length (t_sites T)).

(* Python's search for a handler inside one function: from the innermost protecting site outwards;
   a handler that re-raises hands the exception to the next enclosing site *)
Fixpoint route_in (n : nat) (f : fn) (start : option nat) (atrecv : bool) (e : exc) : caught :=
  match n with
  | 0 => Uncaught
  | S n' =>
    match start with
    | None => Uncaught
    | Some ord =>
      match find_site f ord with
      | None => Uncaught
      | Some s =>
        match first_match (s_handlers s) e atrecv with
        | Some act => if propagates act then route_in n' f (s_outer s) atrecv e else Caught ord act
        | None => route_in n' f (s_outer s) atrecv e
        end
      end
    end
  end.
(* [route]: an exception arriving from a callee (never "at the recv_stub call"); [route_at]: one surfacing here *)
Definition route_at (f : fn) (start : option nat) (atrecv : bool) (e : exc) : caught := route_in fuel f start atrecv e.
Definition route (f : fn) (start : option nat) (e : exc) : caught := route_at f start false e.

Definition outer_of (f : fn) (ord : nat) : option nat :=
  match find_site f ord with Some s => s_outer s | None => None end.

Fixpoint chain_has_finally (n : nat) (f : fn) (start : option nat) : bool :=
  match n with
  | 0 => false
  | S n' =>
    match start with
    | None => false
    | Some ord =>
      match find_site f ord with
      | None => false
      | Some s => s_finally s || chain_has_finally n' f (s_outer s)
      end
    end
  end.

(* ------------------------------------------------------------------ static check *)
(* sufficient condition, independent of the exception: every exception with Exception in its mro that
   surfaces at [start] in [f] is contained inside [f] by a handler whose action satisfies [ok] *)
Fixpoint safe_handlers (ok : action -> bool) (hs : list (list cls * guard * action)) (rest : bool) : bool :=
  match hs with
  | [] => rest
  | (cs, g, act) :: hs' =>
      if propagates act then rest && safe_handlers ok hs' rest
      else ok act && (if mem "Exception" cs && guard_ok g false && guard_ok g true then true else safe_handlers ok hs' rest)
  end.

Fixpoint safe_in (n : nat) (ok : action -> bool) (f : fn) (start : option nat) : bool :=
  match n with
  | 0 => false
  | S n' =>
    match start with
    | None => false
    | Some ord =>
      match find_site f ord with
      | None => false
      | Some s => safe_handlers ok (s_handlers s) (safe_in n' ok f (s_outer s))
      end
    end
  end.
Definition safe (ok : action -> bool) (f : fn) (start : option nat) : bool := safe_in fuel ok f start.

Definition ok_swallow (a : action) : bool := match a with ASwallow => true | _ => false end.
Definition ok_ends (a : action) : bool :=      (* contained, and the function goes on / returns without the connection *)
  match a with ASwallow | ARetFalse | ARetNone => true | _ => false end.
Definition ok_returns (a : action) : bool :=
  match a with ASwallow | ARetFalse | ARetNone | ARetTrue => true | _ => false end.
Definition ok_contained (a : action) : bool :=
  match a with AReraise | ARaiseNew | AReply => false | _ => true end.

(* the frames an exception passes: (function, the call through which it surfaces there) *)
Definition frame := (fn * ckind * nat)%type.
Definition frame_site (fr : frame) : option nat := let '(f, k, i) := fr in asite f k i.
Definition frame_fn (fr : frame) : fn := let '(f, _, _) := fr in f.
Definition ok_at (f : fn) : action -> bool :=
  match f with FWorkerRun => ok_swallow | _ => ok_contained end.

Inductive fate := Contained (depth : nat) (ord : nat) (act : action) | Escaped.
(* worst case for the reply handler: it always re-raises *)
Fixpoint route_path (p : list frame) (depth : nat) (e : exc) : fate :=
  match p with
  | [] => Escaped
  | fr :: p' =>
      match route (frame_fn fr) (frame_site fr) e with
      | Caught ord AReply => route_path p' (S depth) e
      | Caught ord act => Contained depth ord act
      | Uncaught => route_path p' (S depth) e
      end
  end.
Definition frame_safe (fr : frame) : bool := safe (ok_at (frame_fn fr)) (frame_fn fr) (frame_site fr).
Definition path_ok (p : list frame) : bool := existsb frame_safe p.

(* the call skeleton: the frames above a peer-influenced call, per server and phase; the loop
   functions themselves are deliberately not part of any path: an exception has to be contained
   before it reaches loop() *)
Definition peer_kind (k : ckind) : bool :=
  match k with KRecvStub | KSend | KLoads | KLoadsCall | KDumps | KMethod | KValidate | KFormatExc => true | _ => false end.
Definition ctx_handshake : list (list frame) :=
  [ [(FJobHandleConn, KHandshake, 0); (FJobCall, KHandleConnection, 0); (FWorkerRun, KJob, 0)];
    [(FJobDeny, KHandshake, 0); (FThrEvents, KDenyConnection, 0)];
    [(FMuxHandleConn, KHandshake, 0); (FMuxEvents, KHandleConnection, 0)] ].
Definition ctx_request : list (list frame) :=
  [ [(FJobCall, KHandleRequest, 0); (FWorkerRun, KJob, 0)];
    [(FMuxHandleReq, KHandleRequest, 0); (FMuxEvents, KHandleRequest, 0)] ].
Definition ctx_hook : list (list frame) :=
  [ [(FJobCall, KClientDisconnect, 0); (FWorkerRun, KJob, 0)];
    [(FMuxEvents, KClientDisconnect, 0)] ].
Definition anchors_of (f : fn) (p : ckind -> bool) : list frame :=
  map (fun a => (a_fn a, a_kind a, a_idx a))
      (filter (fun a => fn_eqb (a_fn a) f && p (a_kind a)) (t_anchors T)).
Definition is_sendexc (k : ckind) : bool := ckind_eqb k KSendExc.
Definition is_fmt (k : ckind) : bool := ckind_eqb k KFormatExc.
(* statements inside the except clauses of the frame functions that format the caught exception eagerly: an exception
   whose __str__ raises makes the handler itself raise, under whatever protects the handler's code *)
Definition fmt_paths : list (list frame) :=
  map (fun a => [a; (FWorkerRun, KJob, 0)]) (anchors_of FJobCall is_fmt)
  ++ map (fun a => [a; (FJobCall, KHandleConnection, 0); (FWorkerRun, KJob, 0)]) (anchors_of FJobHandleConn is_fmt)
  ++ map (fun a => [a; (FThrEvents, KDenyConnection, 0)]) (anchors_of FJobDeny is_fmt)
  ++ map (fun a => [a]) (anchors_of FWorkerRun is_fmt)
  ++ map (fun a => [a; (FMuxEvents, KHandleRequest, 0)]) (anchors_of FMuxHandleReq is_fmt)
  ++ map (fun a => [a; (FMuxEvents, KHandleConnection, 0)]) (anchors_of FMuxHandleConn is_fmt)
  ++ map (fun a => [a]) (anchors_of FMuxEvents is_fmt).
Definition all_paths : list (list frame) :=
  flat_map (fun a => map (fun c => a :: c) ctx_handshake) (anchors_of FHandshake peer_kind)
  ++ flat_map (fun a => map (fun c => a :: c) ctx_request) (anchors_of FHandleRequest peer_kind)
  ++ flat_map (fun x => flat_map (fun a => map (fun c => a :: x :: c) ctx_request) (anchors_of FSendExc peer_kind))
              (anchors_of FHandleRequest is_sendexc)
  ++ ctx_hook
  ++ fmt_paths.
Definition containment_ok : bool := forallb path_ok all_paths.

(* does an except clause of site [ord] of [f] contain a statement that may raise while formatting the exception? *)
Definition may_raise (f : fn) (ord : nat) : bool :=
  existsb (fun a => fn_eqb (a_fn a) f && ckind_eqb (a_kind a) KFormatExc
                    && match a_handler a with Some h => Nat.eqb h ord | None => false end) (t_anchors T).
Definition no_format (f : fn) : bool :=
  forallb (fun a => negb (fn_eqb (a_fn a) f && ckind_eqb (a_kind a) KFormatExc
                          && match a_handler a with Some _ => true | None => false end)) (t_anchors T).

(* the facts the event machine needs *)
Definition safe_tables : bool :=
  no_format FMuxHandleReq && no_format FMuxEvents &&
  safe ok_swallow FWorkerRun (asite FWorkerRun KJob 0)
  && safe ok_ends FJobDeny (asite FJobDeny KHandshake 0)
  && safe ok_ends FMuxHandleConn (asite FMuxHandleConn KHandshake 0)
  && safe ok_returns FMuxHandleReq (asite FMuxHandleReq KHandleRequest 0)
  && safe ok_swallow FMuxEvents (asite FMuxEvents KClientDisconnect 0).

(* ------------------------------------------------------------------ the functions *)
(* Daemon._handshake: faults surfacing in it, in order.  [failmode]: the catch-all of the main try has
   swallowed something, so CONNECTFAIL is what gets sent at the end *)
Fixpoint hs_loop (fs : list fault) (failmode : bool) : res * option rkind * list fault :=
  match fs with
  | f :: fs' =>
      if fn_eqb (f_fn f) FHandshake then
        match route_at FHandshake (f_site f) (f_recv f) (f_exc f) with
        | Uncaught => (RExc (f_exc f), None, fs')
        | Caught ord act =>
            match act with
            | ASwallow =>
                hs_loop fs' (failmode || match asite FHandshake KRecvStub 0 with Some m => Nat.eqb m ord | None => false end)
            | ARetTrue => (RNorm true, None, fs')
            | ARetFalse | ARetNone => (RNorm false, None, fs')
            | _ => (RExc (f_exc f), None, fs')
            end
        end
      else (RNorm (negb failmode), Some (if failmode then ConnFail else ConnOk), fs)
  | [] => (RNorm (negb failmode), Some (if failmode then ConnFail else ConnOk), [])
  end.

(* Daemon._sendExceptionResponse: (result, reply sent?, rest) *)
Fixpoint xr_loop (fs : list fault) : res * bool * list fault :=
  match fs with
  | f :: fs' =>
      if fn_eqb (f_fn f) FSendExc then
        match route_at FSendExc (f_site f) (f_recv f) (f_exc f) with
        | Caught _ ASwallow => xr_loop fs'
        | Caught _ (ARetTrue | ARetFalse | ARetNone) => (RNorm true, false, fs')
        | _ => (RExc (f_exc f), false, fs')
        end
      else (RNorm true, true, fs)
  | [] => (RNorm true, true, [])
  end.

(* Daemon.handleRequest *)
Fixpoint hr_loop (q : req) (fs : list fault) : res * option rkind * list fault :=
  match fs with
  | f :: fs' =>
      if fn_eqb (f_fn f) FHandleRequest then
        let e := f_exc f in
        match route_at FHandleRequest (f_site f) (f_recv f) e with
        | Uncaught => (RExc e, None, fs')
        | Caught ord AReply =>
            let rr := t_reply T in
            let wants := negb (is_any e (rr_never rr)) && negb (q_oneway q)
                         && (is_any e (rr_always rr) || negb (is_any e (rr_unless rr))) in
            let '(r1, sent, fs1) := if wants then xr_loop fs' else (RNorm true, false, fs') in
            match r1 with
            | RExc e2 =>
                match route FHandleRequest (outer_of FHandleRequest ord) e2 with
                | Uncaught => (RExc e2, None, fs1)
                | Caught _ _ => (RNorm true, None, fs1)
                end
            | RNorm _ =>
                let reply := if sent then Some RepError else None in
                if q_callback q || is_any e (rr_reraise rr) then
                  match route FHandleRequest (outer_of FHandleRequest ord) e with
                  | Uncaught => (RExc e, reply, fs1)
                  | Caught _ _ => (RNorm true, reply, fs1)
                  end
                else (RNorm true, reply, fs1)
            end
        | Caught ord (ASwallow | ABreak | AContinue) => hr_loop q fs'
        | Caught ord _ => (RNorm true, None, fs')
        end
      else (RNorm true, if q_oneway q then None else Some (if q_stream q then RepError else RepNormal), fs)
  | [] => (RNorm true, if q_oneway q then None else Some (if q_stream q then RepError else RepNormal), [])
  end.

(* an exception (from the script) raised by the except clause of site [ord] of [f] while it handles another one:
   possible only where the tables show a formatting statement; protected by what encloses the try statement *)
Definition in_handler (f : fn) (ord : nat) (fs : list fault) : option exc * list fault :=
  if may_raise f ord then
    match fs with
    | x :: fs' =>
        if fn_eqb (f_fn x) f then
          match route f (outer_of f ord) (f_exc x) with
          | Caught _ _ => (None, fs')
          | Uncaught => (Some (f_exc x), fs')
          end
        else (None, fs)
    | [] => (None, [])
    end
  else (None, fs).

(* the user's disconnect hook, called at (f, KClientDisconnect 0): (exception leaving f's protection, rest) *)
Definition hook_call (f : fn) (fs : list fault) : option exc * list fault :=
  match fs with
  | x :: fs' =>
      if fn_eqb (f_fn x) f then
        match route f (asite f KClientDisconnect 0) (f_exc x) with
        | Caught ord _ => in_handler f ord fs'
        | Uncaught => (Some (f_exc x), fs')
        end
      else (None, fs)
  | [] => (None, [])
  end.

(* --- thread-pool server *)
(* does Worker.run get to pool.notify_done after the job raised e? *)
Definition worker_survives (e : exc) : bool :=
  match route FWorkerRun (asite FWorkerRun KJob 0) e with Caught _ ASwallow => true | _ => false end.

(* ClientConnectionJob.__call__ up to the request loop: (reply, connection served?, worker back in pool?, rest) *)
Definition thr_job_connect (fs : list fault) : option rkind * bool * bool * list fault :=
  let '(r, rep, fs1) := hs_loop fs false in
  match r with
  | RNorm true => (rep, true, true, fs1)
  | RNorm false => (rep, false, true, fs1)
  | RExc e =>
      match route FJobHandleConn (asite FJobHandleConn KHandshake 0) e with
      | Caught _ ARetTrue => (None, true, true, fs1)
      | Caught _ _ => (None, false, true, fs1)
      | Uncaught =>
          match route FJobCall (asite FJobCall KHandleConnection 0) e with
          | Caught _ _ => (None, false, true, fs1)
          | Uncaught => (None, false, worker_survives e, fs1)
          end
      end
  end.

(* leaving the request loop: finally clause (hook, close) if there is one: (exception raised by it, hook ran?, rest) *)
Definition thr_finally (fs : list fault) : option exc * bool * list fault :=
  if chain_has_finally fuel FJobCall (asite FJobCall KHandleRequest 0) then
    let '(x, fs1) := hook_call FJobCall fs in (x, true, fs1)
  else (None, false, fs).

(* one request on a served connection: (reply, still served?, hook ran?, worker back in pool / still serving?, rest) *)
Definition thr_job_request (q : req) (fs : list fault) : option rkind * bool * bool * bool * list fault :=
  let '(r, rep, fs1) := hr_loop q fs in
  match r with
  | RNorm _ => (rep, true, false, true, fs1)
  | RExc e =>
      match route FJobCall (asite FJobCall KHandleRequest 0) e with
      | Caught ord act =>
          let '(hx, fs1') := in_handler FJobCall ord fs1 in
          match hx with
          | Some e1 =>        (* the handler itself raised: out of the loop through the finally clause *)
              let '(fe, hook, fs2) := thr_finally fs1' in
              (rep, false, hook, worker_survives (match fe with None => e1 | Some e2 => e2 end), fs2)
          | None =>
              match act with
              | ASwallow | AContinue => (rep, true, false, true, fs1')
              | _ =>
                  let '(fe, hook, fs2) := thr_finally fs1' in
                  (rep, false, hook, match fe with None => true | Some e2 => worker_survives e2 end, fs2)
              end
          end
      | Uncaught =>
          let '(fe, hook, fs2) := thr_finally fs1 in
          (rep, false, hook, worker_survives (match fe with None => e | Some e2 => e2 end), fs2)
      end
  end.

(* does an exception that left events() end the accept loop? *)
Definition loop_dies (floop : fn) (e : exc) : bool :=
  match route floop (asite floop KEvents 0) e with
  | Caught _ (ASwallow | AContinue) => false
  | _ => true
  end.
(* an exception surfacing in events() through call (k, 0) *)
Definition events_dies (fev floop : fn) (k : ckind) (e : exc) : bool :=
  match route fev (asite fev k 0) e with
  | Caught _ _ => false
  | Uncaught => loop_dies floop e
  end.

(* pool full: the refusal runs in the accept-loop thread: (reply, loop dies?, rest) *)
Definition thr_deny (fs : list fault) : option rkind * bool * list fault :=
  let '(r, rep, fs1) := hs_loop fs false in
  match r with
  | RNorm _ => (rep, false, fs1)
  | RExc e =>
      match route FJobDeny (asite FJobDeny KHandshake 0) e with
      | Caught _ _ => (None, false, fs1)
      | Uncaught => (None, events_dies FThrEvents FThrLoop KDenyConnection e, fs1)
      end
  end.

(* --- multiplex server *)
(* (reply, registered?, loop dies?, rest) *)
Definition mux_connect (fs : list fault) : option rkind * bool * bool * list fault :=
  let '(r, rep, fs1) := hs_loop fs false in
  match r with
  | RNorm v => (rep, v, false, fs1)
  | RExc e =>
      match route FMuxHandleConn (asite FMuxHandleConn KHandshake 0) e with
      | Caught _ _ => (None, false, false, fs1)
      | Uncaught => (None, false, events_dies FMuxEvents FMuxLoop KHandleConnection e, fs1)
      end
  end.

(* (reply, still registered?, hook ran?, loop dies?, rest) *)
Definition mux_request (q : req) (fs : list fault) : option rkind * bool * bool * bool * list fault :=
  let '(r, rep, fs1) := hr_loop q fs in
  match r with
  | RNorm _ => (rep, true, false, false, fs1)
  | RExc e =>
      match route FMuxHandleReq (asite FMuxHandleReq KHandleRequest 0) e with
      | Caught ord act =>
          let '(hx, fs1') := in_handler FMuxHandleReq ord fs1 in
          match hx with
          | Some e1 => (rep, true, false, events_dies FMuxEvents FMuxLoop KHandleRequest e1, fs1')
          | None =>
              match act with
              | ARetTrue => (rep, true, false, false, fs1')
              | _ =>
                  let '(x, fs2) := hook_call FMuxEvents fs1' in
                  match x with
                  | None => (rep, false, true, false, fs2)
                  | Some e2 => (rep, true, true, loop_dies FMuxLoop e2, fs2)
                  end
              end
          end
      | Uncaught => (rep, true, false, events_dies FMuxEvents FMuxLoop KHandleRequest e, fs1)
      end
  end.

(* ------------------------------------------------------------------ the event machine *)
Definition mkobs c rep op hook (rest : list fault) : obs :=
  {| o_conn := c; o_reply := rep; o_open := op; o_hook := hook; o_left := List.length rest |}.

Definition step (srv : server) (psize : nat) (s : state) (ev : event) : state * obs :=
  let c := e_conn ev in
  let fs := e_script ev in
  match e_kind ev with
  | EConnect =>
      if has_conn c (live s) then (s, mkobs c None true false fs)          (* ids are fresh; ignored *)
      else if negb (alive s) then (s, mkobs c None true false fs)          (* nobody accepts *)
      else
        match srv with
        | SThread =>
            if Nat.ltb (busy s) psize then
              let '(rep, lv, back, rest) := thr_job_connect fs in
              ({| alive := true;
                  busy := if lv then S (busy s) else if back then busy s else S (busy s);
                  live := if lv then c :: live s else live s |}, mkobs c rep lv false rest)
            else
              let '(rep, dies, rest) := thr_deny fs in
              ({| alive := negb dies; busy := busy s; live := live s |}, mkobs c rep false false rest)
        | SMux =>
            let '(rep, lv, dies, rest) := mux_connect fs in
            ({| alive := negb dies; busy := busy s; live := if lv then c :: live s else live s |},
             mkobs c rep lv false rest)
        end
  | ERequest q =>
      if negb (has_conn c (live s)) then (s, mkobs c None false false fs)
      else
        match srv with
        | SThread =>
            let '(rep, lv, hook, back, rest) := thr_job_request q fs in
            ({| alive := alive s;
                busy := if lv then busy s else if back then pred (busy s) else busy s;
                live := if lv then live s else remove_conn c (live s) |}, mkobs c rep lv hook rest)
        | SMux =>
            if negb (alive s) then (s, mkobs c None true false fs)
            else
              let '(rep, lv, hook, dies, rest) := mux_request q fs in
              ({| alive := negb dies; busy := busy s; live := if lv then live s else remove_conn c (live s) |},
               mkobs c rep lv hook rest)
        end
  end.

Fixpoint run_from (srv : server) (psize : nat) (s : state) (evs : list event) : state * list obs :=
  match evs with
  | [] => (s, [])
  | ev :: evs' =>
      let '(s1, o) := step srv psize s ev in
      let '(s2, os) := run_from srv psize s1 evs' in
      (s2, o :: os)
  end.
Definition run (srv : server) (psize : nat) (evs : list event) := run_from srv psize init evs.

(* Pool.busy (thread) / selector registrations without the server socket (multiplex) *)
Definition accounting (srv : server) (s : state) : nat :=
  match srv with SThread => busy s | SMux => List.length (live s) end.

End Interp.

(* ------------------------------------------------------------------ the defective variant *)
(* DESIGN section 7 row 12: before the fix denyConnection had no try at all.  The pre-fix table entries are
   exactly: no site in FJobDeny, and its _handshake call unprotected. *)
Definition unguard_deny (T : tables) : tables :=
  {| t_sites := filter (fun s => negb (fn_eqb (s_fn s) FJobDeny)) (t_sites T);
     t_anchors := map (fun a => if fn_eqb (a_fn a) FJobDeny
                                then {| a_fn := a_fn a; a_kind := a_kind a; a_idx := a_idx a; a_site := None; a_handler := a_handler a |} else a)
                      (t_anchors T);
     t_hier := t_hier T; t_reply := t_reply T |}.

(* the second defect (found 2026-10, fixed by fixes/C05_mux_log_format.diff): the except clauses of
   SocketServer_Multiplex.handleRequest formatted the exception they had just caught with the % operator, outside any
   protection.  The pre-fix table entry: a formatting statement in a handler of the try around daemon.handleRequest. *)
Definition add_mux_format (T : tables) : tables :=
  {| t_sites := t_sites T;
     t_anchors := {| a_fn := FMuxHandleReq; a_kind := KFormatExc; a_idx := 0; a_site := None;
                     a_handler := match find (fun a => fn_eqb (a_fn a) FMuxHandleReq && ckind_eqb (a_kind a) KHandleRequest) (t_anchors T) with
                                  | Some a => a_site a | None => None end |} :: t_anchors T;
     t_hier := t_hier T; t_reply := t_reply T |}.

(* mro of a class of the generated hierarchy *)
Fixpoint mro_of (h : list (cls * cls)) (n : nat) (c : cls) : exc :=
  match n with
  | 0 => [c]
  | S n' =>
      match find (fun p => String.eqb (fst p) c) h with
      | Some p => c :: mro_of h n' (snd p)
      | None => [c]
      end
  end.
Definition mro (T : tables) (c : cls) : exc := mro_of (t_hier T) (List.length (t_hier T)) c.

(* events' well-formedness for the theorems: every exception is an Exception subclass *)
Definition wf_fault (f : fault) : bool := is_exception (f_exc f).
Definition wf_event (ev : event) : bool := forallb wf_fault (e_script ev).
Definition wf_events (evs : list event) : bool := forallb wf_event evs.
Definition on_conn (w : nat) (ev : event) : bool := Nat.eqb (e_conn ev) w.
Definition is_request (ev : event) : bool := match e_kind ev with ERequest _ => true | EConnect => false end.
Definition obs_on (w : nat) (os : list obs) : list obs := filter (fun o => Nat.eqb (o_conn o) w) os.
(* is connection c still open according to what was observed (its last observation) *)
Fixpoint still_open (c : nat) (os : list obs) (cur : bool) : bool :=
  match os with
  | [] => cur
  | o :: os' => still_open c os' (if Nat.eqb (o_conn o) c then o_open o else cur)
  end.
