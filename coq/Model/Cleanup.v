(* C13 — connection cleanup.  Executable model of what a Pyro5 daemon does with the events of its
   connections, as far as cleanup is concerned, for both transport servers.  Definitions only.

   Anchors: svr_threads.ClientConnectionJob.__call__ / handleConnection / denyConnection, Worker.run,
   svr_multiplex.SocketServer_Multiplex.events / handleRequest / _handleConnection,
   socketutil.SocketConnection.close, callcontext.track_resource / untrack_resource,
   server.Daemon.handleRequest (what escapes it) and Daemon._clientDisconnect.

   The *structure* (which cleanup actions run, in which order, which exception classes leave the
   request loop) is a parameter [shape]; Gen/GenCleanup.v instantiates it from the source on every run. *)
From Coq Require Import List Arith Bool.
Import ListNotations.

Definition conn := nat.
Definition res := nat.

(* ---------------------------------------------------------------- structure taken from the source *)
(* primitive cleanup actions *)
Inductive act :=
| AHook        (* Daemon._clientDisconnect -> user hook clientDisconnect(conn) *)
| ASlot        (* selector.unregister(conn) / the worker returns to the pool (Pool.notify_done) *)
| ASock        (* SocketConnection.close: shutdown + close of the server-side socket *)
| ADropInst    (* SocketConnection.close: self.pyroInstances = {} *)
| ACloseRes    (* SocketConnection.close: for rsc in self.tracked_resources: rsc.close() -- every element, whether or not
                  an individual close() raises: a raising close is that resource's one ResClose *)
| AClearRes    (* SocketConnection.close: self.tracked_resources.clear() *)
| AGuardEnd.   (* structure marker, no effect of its own: end of a `try ... except Exception` (or suppress) block; if the user
                  hook raised inside that block, everything between the hook and this marker has been skipped *)

(* classes of exceptions that can leave Daemon.handleRequest *)
Inductive exc := XClosed | XProtocol | XTimeout | XSecurity | XOther.

Record shape := {
  sh_cleanup : list act;          (* reaction of the transport server when the request loop of a connection is left *)
  sh_reject : list act;           (* reaction when the handshake was refused / the pool is full *)
  sh_ends : exc -> bool;          (* does this class, leaving handleRequest, end the connection's request loop *)
  sh_escapes_security : bool;     (* Daemon.handleRequest re-raises a SecurityError raised by the method *)
  sh_escapes_callback : bool;     (* ... and any exception of a @callback method *)
  sh_idle_timeout : bool;         (* is a merely idle connection subject to COMMTIMEOUT (thread: blocking recv; multiplex: no) *)
  sh_hook_raises : conn -> bool   (* environment, not structure: for which connections the user's clientDisconnect hook raises *)
}.
Definition with_hooks (sh : shape) (hk : conn -> bool) : shape :=
  Build_shape (sh_cleanup sh) (sh_reject sh) (sh_ends sh) (sh_escapes_security sh) (sh_escapes_callback sh)
              (sh_idle_timeout sh) hk.

Record config := { cf_shape : shape; cf_pool : option nat (* worker pool size; None = no limit (multiplex) *) }.

(* ---------------------------------------------------------------- events *)
Inductive action := Track (r : res) | Untrack (r : res) | Nop
  | Stream.   (* the method returns a generator: an item stream is opened (Daemon.streaming_responses); irrelevant to cleanup *)
(* which registered object serves the request.  A session-mode class gets one instance per connection, created by the
   first request that needs it; a percall class a new instance for every request.  [ctor] = the resource the class's
   constructor tracks through current_context.track_resource (None: it tracks nothing): construction happens while
   serving the request, so the resource belongs to the request's connection. *)
Inductive target := TSession (ctor : option res) | TPlain | TPercall (ctor : option res).
Inductive failure := FPlain | FSecurity | FCallback.
Inductive ending :=
| EClose                                           (* client closes / resets between requests *)
| EAbrupt (k : nat) (served : option (target * action))
     (* client closes at byte k of a request; [served] = Some when the whole request had arrived and was executed *)
| EMalformed                                       (* header-level garbage: ProtocolError out of recv_stub *)
| EOther.                                          (* any other exception escaping handleRequest (e.g. unknown serializer id) *)
Inductive event :=
| Connect (c : conn) (ok : bool)                   (* handshake; ok = the validator accepts *)
| Req (c : conn) (t : target) (a : action)         (* request served normally *)
| Raise (c : conn) (t : target) (f : failure)      (* request whose method raises *)
| End (c : conn) (e : ending)
| Timeout (c : conn) (k : nat).                    (* k bytes of a request on c, then silence longer than COMMTIMEOUT *)

(* ---------------------------------------------------------------- outputs *)
Inductive out :=
| DisconnectHook (c : conn)
| ResClose (c : conn) (r : res)
| SockClosed (c : conn)
| SlotReleased (c : conn).
Definition tag (o : out) : conn :=
  match o with DisconnectHook c | ResClose c _ | SockClosed c | SlotReleased c => c end.

(* ---------------------------------------------------------------- state *)
Record cst := mkc {
  c_acc : bool;             (* passed the handshake *)
  c_open : bool;            (* server-side socket open *)
  c_ended : bool;           (* the daemon no longer serves it *)
  c_tracked : list res;     (* conn.tracked_resources *)
  c_inst : bool;            (* conn.pyroInstances non-empty *)
  c_slot : bool             (* holds a worker / a selector registration *)
}.
Definition cst0 : cst := mkc false false false [] false false.
Record state := mks { conns : conn -> cst; dom : list conn }.
Definition init : state := mks (fun _ => cst0) [].

Definition upd (st : state) (c : conn) (s : cst) : state :=
  mks (fun c' => if Nat.eqb c' c then s else conns st c') (dom st).
Definition known (st : state) (c : conn) : bool := existsb (Nat.eqb c) (dom st).
Definition active (s : cst) : bool := c_acc s && negb (c_ended s).
Definition slots (st : state) : nat := length (filter (fun c => c_slot (conns st c)) (dom st)).
Definition has_free_slot (cf : config) (st : state) : bool :=
  match cf_pool cf with None => true | Some n => slots st <? n end.

Definition mem (r : res) (l : list res) : bool := existsb (Nat.eqb r) l.
Definition add_res (r : res) (l : list res) : list res := if mem r l then l else r :: l.
Definition del_res (r : res) (l : list res) : list res := filter (fun x => negb (Nat.eqb x r)) l.

Definition set_tracked (s : cst) (l : list res) : cst := mkc (c_acc s) (c_open s) (c_ended s) l (c_inst s) (c_slot s).
Definition set_inst (s : cst) (b : bool) : cst := mkc (c_acc s) (c_open s) (c_ended s) (c_tracked s) b (c_slot s).
Definition set_open (s : cst) (b : bool) : cst := mkc (c_acc s) b (c_ended s) (c_tracked s) (c_inst s) (c_slot s).
Definition set_slot (s : cst) (b : bool) : cst := mkc (c_acc s) (c_open s) (c_ended s) (c_tracked s) (c_inst s) b.
Definition set_ended (s : cst) : cst := mkc (c_acc s) (c_open s) true (c_tracked s) (c_inst s) (c_slot s).

(* the method call: a session-mode target creates/uses the connection's instance; the action tracks / untracks *)
Definition track_opt (s : cst) (o : option res) : cst :=
  match o with Some r => set_tracked s (add_res r (c_tracked s)) | None => s end.
Definition touch (s : cst) (t : target) : cst :=
  match t with
  | TSession o => if c_inst s then s else set_inst (track_opt s o) true
  | TPlain => s
  | TPercall o => track_opt s o
  end.
Definition serve (s : cst) (t : target) (a : action) : cst :=
  let s := touch s t in
  match a with
  | Track r => set_tracked s (add_res r (c_tracked s))
  | Untrack r => set_tracked s (del_res r (c_tracked s))
  | Nop => s
  | Stream => s
  end.

(* one cleanup action on connection c *)
Definition do_act (c : conn) (s : cst) (a : act) : cst * list out :=
  match a with
  | AHook => (s, [DisconnectHook c])
  | ASlot => if c_slot s then (set_slot s false, [SlotReleased c]) else (s, [])
  | ASock => if c_open s then (set_open s false, [SockClosed c]) else (s, [])
  | ADropInst => (set_inst s false, [])
  | ACloseRes => (s, map (ResClose c) (c_tracked s))
  | AClearRes => (set_tracked s [], [])
  | AGuardEnd => (s, [])
  end.
Fixpoint run_acts (c : conn) (s : cst) (l : list act) : cst * list out :=
  match l with
  | [] => (s, [])
  | a :: t => let (s1, o1) := do_act c s a in
              let (s2, o2) := run_acts c s1 t in (s2, o1 ++ o2)
  end.

(* the same sequence when the user hook may raise ([hr]): a raising hook transfers control to the end of the enclosing
   guarded block, i.e. the actions up to the next [AGuardEnd] are skipped ([sk] = currently skipping) *)
Fixpoint run_acts_h (hr sk : bool) (c : conn) (s : cst) (l : list act) : cst * list out :=
  match l with
  | [] => (s, [])
  | AGuardEnd :: t => run_acts_h hr false c s t
  | a :: t => if sk then run_acts_h hr true c s t
              else let (s1, o1) := do_act c s a in
                   let (s2, o2) := run_acts_h hr (match a with AHook => hr | _ => false end) c s1 t in (s2, o1 ++ o2)
  end.
Definition cleanup_run (sh : shape) (c : conn) (s : cst) : cst * list out :=
  run_acts_h (sh_hook_raises sh c) false c s (sh_cleanup sh).

(* the request loop of c is left: run the cleanup sequence, the connection is over *)
Definition end_conn (sh : shape) (st : state) (c : conn) : state * list out :=
  if active (conns st c)
  then let (s, o) := cleanup_run sh c (conns st c) in (upd st c (set_ended s), o)
  else (st, []).
Fixpoint end_all (sh : shape) (st : state) (vs : list conn) : state * list out :=
  match vs with
  | [] => (st, [])
  | v :: t => let (st1, o1) := end_conn sh st v in
              let (st2, o2) := end_all sh st1 t in (st2, o1 ++ o2)
  end.

Definition exc_of_failure (f : failure) : exc :=
  match f with FPlain => XOther | FSecurity => XSecurity | FCallback => XOther end.
Definition escapes (sh : shape) (f : failure) : bool :=
  match f with FPlain => false | FSecurity => sh_escapes_security sh | FCallback => sh_escapes_callback sh end.
Definition exc_of_ending (e : ending) : exc :=
  match e with EClose => XClosed | EAbrupt _ _ => XClosed | EMalformed => XProtocol | EOther => XOther end.

(* the part of an event that is served on connection c before anything ends: the state "at the moment of ending" *)
Definition pre_end (s : cst) (ev : event) : cst :=
  match ev with
  | Raise _ t _ => touch s t
  | End _ (EAbrupt _ (Some (t, a))) => serve s t a
  | _ => s
  end.

Definition step (cf : config) (st : state) (ev : event) : state * list out :=
  let sh := cf_shape cf in
  match ev with
  | Connect c ok =>
      if known st c then (st, [])
      else
        let st := mks (conns st) (dom st ++ [c]) in
        if ok && has_free_slot cf st
        then (upd st c (mkc true true false [] false true), [])
        else let (s, o) := run_acts c (mkc false true false [] false false) (sh_reject sh) in
             (upd st c (set_ended s), o)
  | Req c t a =>
      if active (conns st c) then (upd st c (serve (conns st c) t a), []) else (st, [])
  | Raise c t f =>
      if active (conns st c) then
        let st := upd st c (pre_end (conns st c) ev) in
        if escapes sh f && sh_ends sh (exc_of_failure f) then end_conn sh st c else (st, [])
      else (st, [])
  | End c e =>
      if active (conns st c) then
        let st := upd st c (pre_end (conns st c) ev) in
        if sh_ends sh (exc_of_ending e) then end_conn sh st c else (st, [])
      else (st, [])
  | Timeout c k =>
      if sh_ends sh XTimeout then
        end_all sh st (filter (fun c' => sh_idle_timeout sh || (Nat.eqb c' c && (0 <? k))) (dom st))
      else (st, [])
  end.

Fixpoint run_from (cf : config) (st : state) (evs : list event) : state * list out :=
  match evs with
  | [] => (st, [])
  | ev :: t => let (st1, o1) := step cf st ev in
               let (st2, o2) := run_from cf st1 t in (st2, o1 ++ o2)
  end.
Definition run (cf : config) (evs : list event) : state * list out := run_from cf init evs.

(* ---------------------------------------------------------------- vocabulary of the theorems *)
Definition for_conn (c : conn) (tr : list out) : list out := filter (fun o => Nat.eqb (tag o) c) tr.
Definition out_eqb (a b : out) : bool :=
  match a, b with
  | DisconnectHook x, DisconnectHook y => Nat.eqb x y
  | ResClose x r, ResClose y q => Nat.eqb x y && Nat.eqb r q
  | SockClosed x, SockClosed y => Nat.eqb x y
  | SlotReleased x, SlotReleased y => Nat.eqb x y
  | _, _ => false
  end.
Definition count (o : out) (tr : list out) : nat := length (filter (out_eqb o) tr).

(* an event that, addressed to c, is one of the ways a connection can end *)
Definition is_ending (ev : event) (c : conn) : bool :=
  match ev with
  | End c' _ => Nat.eqb c' c
  | Raise c' _ FSecurity => Nat.eqb c' c
  | Raise c' _ FCallback => Nat.eqb c' c
  | Timeout c' k => Nat.eqb c' c && (0 <? k)
  | _ => false
  end.
Definition ev_conn (ev : event) : conn :=
  match ev with Connect c _ | Req c _ _ | Raise c _ _ | End c _ | Timeout c _ => c end.

(* the resource discipline of a cleanup sequence: a three-state automaton
   RFresh = tracked resources not yet closed, RClosed = closed but still in the set, RCleared = closed and the
   set cleared.  Closing twice before clearing, or clearing before closing, is an error (None). *)
Inductive rq := RFresh | RClosed | RCleared.
Fixpoint res_auto (q : rq) (l : list act) : option rq :=
  match l with
  | [] => Some q
  | ACloseRes :: t => match q with RFresh => res_auto RClosed t | RClosed => None | RCleared => res_auto RCleared t end
  | AClearRes :: t => match q with RFresh => None | _ => res_auto RCleared t end
  | _ :: t => res_auto q t
  end.
Definition act_eqb (a b : act) : bool :=
  match a, b with
  | AHook, AHook | ASlot, ASlot | ASock, ASock | ADropInst, ADropInst | ACloseRes, ACloseRes | AClearRes, AClearRes
  | AGuardEnd, AGuardEnd => true
  | _, _ => false
  end.
Definition nacts (a : act) (l : list act) : nat := length (filter (act_eqb a) l).
Definition acts_ok (l : list act) : bool :=
  (nacts AHook l =? 1) && (0 <? nacts ASlot l) && (0 <? nacts ASock l) && (0 <? nacts ADropInst l) &&
  match res_auto RFresh l with Some RCleared => true | _ => false end.
(* release is not skipped when the hook raises: nothing but the end of the guarded block follows a hook inside it *)
Fixpoint guard_ok_from (after_hook : bool) (l : list act) : bool :=
  match l with
  | [] => true
  | AGuardEnd :: t => guard_ok_from false t
  | AHook :: t => negb after_hook && guard_ok_from true t
  | _ :: t => negb after_hook && guard_ok_from false t
  end.
Definition all_exc : list exc := [XClosed; XProtocol; XTimeout; XSecurity; XOther].
Definition shape_ok (sh : shape) : bool :=
  acts_ok (sh_cleanup sh) && guard_ok_from false (sh_cleanup sh) && forallb (sh_ends sh) all_exc && sh_escapes_security sh && sh_escapes_callback sh.
