(* C04 — types of the tables that tools/gen/gen_classtag.py generates from
   Pyro5/serializers.py (Gen/GenClassTag.v) and that Model/ClassTag.v interprets.
   Definitions only. *)
From Coq Require Import List NArith.
Import ListNotations.

Definition text := list N.            (* code points *)

(* the class test that guards a namespace lookup: issubclass(t, BaseException / errors.PyroError) or none *)
Inductive guard := GuardBaseException | GuardPyroError | GuardNone.

(* statements of dict_to_class before the if/elif chain, in source order *)
Inductive prestep :=
| PreDecodeBytes                      (* if isinstance(classname, bytes): classname = classname.decode("utf-8") *)
| PreRegistry                         (* if classname in registry: return converter(classname, data) *)
| PreRefuse (needle : text).          (* if needle in classname: raise errors.SecurityError *)

(* namespace in (names) [and short.endswith(suffix)]: [import m;] t = getattr(ns, short); [if issubclass(t, g):] return make_exception(t, data) *)
Inductive nsclause := NsClause (namespaces : list text) (suffix : option text) (ns : text) (imports : list text) (g : guard).

Inductive clause :=
| ClSetState (tag cls key : text)     (* classname == tag: x = cls.__new__(cls); x.__setstate__(data[key]); return x *)
| ClMakeExc (tag cls : text)          (* classname == tag: return make_exception(cls, data) *)
| ClWrapper (tag cls key : text)      (* classname == tag: ex = data[key]; tagged dict -> dict_to_class(ex); return cls(ex) *)
| ClPrefixTable (prefix : text) (table : list (text * text))   (* startswith prefix: classname == name -> return Cls() *)
| ClPrefixNs (prefix ns : text) (maxsplit idx : N) (g : guard) (* startswith prefix: t = getattr(ns, classname.split('.', maxsplit)[idx]) ... *)
| ClExcFlag (flagkey : text) (use_all : bool) (nss : list nsclause).  (* data.get(flagkey, False): all_exceptions, then namespaces *)

(* what a name of a namespace is bound to at run time *)
Inductive entry := EntOther | EntClass (canon : text) (isexc ispyro : bool).
Record env := { e_namespaces : list (text * list (text * entry)); e_all : list (text * entry) }.

(* how a serializer's loads / loadsCall applies dict_to_class: recreate_classes, after the library decoded everything
   (with or without msgpack's ext_hook), on the whole value (position 0) or on the listed call parts (1 = object,
   2 = method, 3 = vargs, 4 = kwargs); or msgpack's object_hook, applied bottom-up while decoding *)
Inductive hookmode := TopDown (positions : list N) (ext_hook : bool) | BottomUp (object_hook ext_hook : bool).
