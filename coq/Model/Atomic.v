(* Interleaving semantics for threads that run critical sections under one
   (re-entrant, hence flattened) lock — shared by C15, C18, C09.  Definitions only.

   A thread's code is a list of units.  [Locked p]: acquire the lock, run the
   resumption [p] one shared access per step, release.  [Bare f]: one unprotected
   shared access.  A schedule is an arbitrary list of thread ids; scheduling a thread
   that is finished or blocked on the lock is a no-op. *)
From Coq Require Import List Arith Bool.
Import ListNotations.

Section Atomic.
Variables (S R : Type).          (* shared state; thread-local registers *)

(* a critical section as a resumption: do one access, then continue depending on the registers *)
Inductive prog :=
| Ret
| Do (f : S -> R -> S * R) (k : R -> prog).

Inductive unit_ :=
| Locked (p : prog)
| Bare (f : S -> R -> S * R).

Record thread := mk_thread { cur : option prog;      (* Some p: holds the lock, p remains *)
                             todo : list unit_;
                             tregs : R }.
Record config := mk_config { shared : S; owner : option nat; threads : nat -> thread }.

Definition upd (ts : nat -> thread) (t : nat) (th : thread) : nat -> thread :=
  fun i => if Nat.eqb i t then th else ts i.

Inductive kind := KNone | KAcquire | KAccess | KRelease | KBare.

(* one step of thread t; also reports what kind of step it was *)
Definition step_kind (t : nat) (c : config) : config * kind :=
  let th := threads c t in
  match cur th with
  | Some Ret =>
      (mk_config (shared c) None (upd (threads c) t (mk_thread None (todo th) (tregs th))), KRelease)
  | Some (Do f k) =>
      let '(s', r') := f (shared c) (tregs th) in
      (mk_config s' (owner c) (upd (threads c) t (mk_thread (Some (k r')) (todo th) r')), KAccess)
  | None =>
      match todo th with
      | [] => (c, KNone)
      | Bare f :: rest =>
          let '(s', r') := f (shared c) (tregs th) in
          (mk_config s' (owner c) (upd (threads c) t (mk_thread None rest r')), KBare)
      | Locked p :: rest =>
          match owner c with
          | None => (mk_config (shared c) (Some t) (upd (threads c) t (mk_thread (Some p) rest (tregs th))), KAcquire)
          | Some _ => (c, KNone)           (* blocked *)
          end
      end
  end.

Definition step (t : nat) (c : config) : config := fst (step_kind t c).
Definition run (sched : list nat) (c : config) : config := fold_left (fun c t => step t c) sched c.

(* ---- the atomic (coarse) semantics: a whole unit at once ---- *)
Fixpoint run_prog (p : prog) (s : S) (r : R) : S * R :=
  match p with
  | Ret => (s, r)
  | Do f k => let '(s', r') := f s r in run_prog (k r') s' r'
  end.

Definition astep (t : nat) (c : config) : config :=
  let th := threads c t in
  match todo th with
  | [] => c
  | Bare f :: rest =>
      let '(s', r') := f (shared c) (tregs th) in
      mk_config s' (owner c) (upd (threads c) t (mk_thread None rest r'))
  | Locked p :: rest =>
      let '(s', r') := run_prog p (shared c) (tregs th) in
      mk_config s' (owner c) (upd (threads c) t (mk_thread None rest r'))
  end.
Definition arun (asched : list nat) (c : config) : config := fold_left (fun c t => astep t c) asched c.

(* the linearisation: the thread ids of exactly those steps of [sched] that complete a
   unit (release of the lock, or a bare access), in order — a subsequence of [sched],
   so every unit takes effect at a point between its first and its last step *)
Fixpoint lin (sched : list nat) (c : config) : list nat :=
  match sched with
  | [] => []
  | t :: sched' =>
      let '(c', k) := step_kind t c in
      match k with
      | KRelease | KBare => t :: lin sched' c'
      | _ => lin sched' c'
      end
  end.

Definition all_locked_units (us : list unit_) : bool :=
  forallb (fun u => match u with Locked _ => true | Bare _ => false end) us.

End Atomic.

Arguments Ret {S R}.
Arguments Do {S R} f k.
Arguments Locked {S R} p.
Arguments Bare {S R} f.
Arguments mk_thread {S R} cur todo tregs.
Arguments mk_config {S R} shared owner threads.
Arguments cur {S R} t.
Arguments todo {S R} t.
Arguments tregs {S R} t.
Arguments shared {S R} c.
Arguments owner {S R} c.
Arguments threads {S R} c.
Arguments upd {S R} ts t th.
Arguments step_kind {S R} t c.
Arguments step {S R} t c.
Arguments run {S R} sched c.
Arguments run_prog {S R} p s r.
Arguments astep {S R} t c.
Arguments arun {S R} asched c.
Arguments lin {S R} sched c.
Arguments all_locked_units {S R} us.
