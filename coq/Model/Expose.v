(* C02 — exposure gate of the Pyro5 daemon (Pyro5/server.py: expose, _get_attribute,
   _get_exposed_property_value, _set_exposed_property_value, _get_exposed_members and the
   dispatch branches of Daemon.handleRequest).  Definitions only.

   A class shape describes the registered object: an instance of Sub(Base), each class with or
   without a class-level @expose, and a list of members.  The privacy predicate is a parameter;
   Props/C02.v and Harness/H02.v instantiate it with the function generated from the source
   (Gen/GenServer.v). *)
From Coq Require Import List NArith Arith Bool.
Import ListNotations.
From V Require Import Model.StrFun.

Inductive cls := Base | Sub.
Definition cls_eqb (a b : cls) : bool :=
  match a, b with Base, Base | Sub, Sub => true | _, _ => false end.

Inductive kind :=
| KMethod | KStatic | KClassM           (* function / staticmethod / classmethod in a class body *)
| KProp (has_get has_set : bool)        (* property object; with neither accessor it only has a deleter *)
| KClassAttr                            (* plain class attribute (a number) *)
| KInstAttr                             (* plain instance attribute (a number) *)
| KHelper (helper_class_exposed : bool). (* non-callable helper object stored in an instance attribute;
                                            its class has exposed methods of its own and may carry @expose *)

Record member := {
  m_id : nat;          (* position in the shape, used to compare with the implementation's side-effect log *)
  m_name : text;       (* attribute name it is bound to *)
  m_kind : kind;
  m_in : cls;          (* class body it is defined in (ignored for instance attributes) *)
  m_mark : bool;       (* @expose was applied to this very function / property object *)
  m_fname : text;      (* __name__ of the function (differs from m_name when bound under another name) *)
  m_oneway : bool      (* @oneway applied *)
}.

Record shape := { s_base_exposed : bool; s_sub_exposed : bool; s_members : list member }.

(* the two known deviations of the code from the property, as switches (false = repaired behaviour) *)
Record quirks := {
  q_call_runs_getter : bool;        (* _get_attribute does getattr(obj, name) on a property: the getter runs, then the value is refused *)
  q_attr_private_unchecked : bool   (* __getattr__/__setattr__ requests do not apply the privacy test *)
}.
Definition quirks_none := {| q_call_runs_getter := false; q_attr_private_unchecked := false |}.

Inductive acc := ACall | AGet | ASet.
Definition acc_eqb (a b : acc) : bool :=
  match a, b with ACall, ACall | AGet, AGet | ASet, ASet => true | _, _ => false end.
Definition effect := (member * acc)%type.

Inductive reqname := NStr (t : text) | NOther.    (* NOther: any value that is not a string *)
Inductive rkind := RCall | RBatch | RGet | RSet.
Record request := { r_kind : rkind; r_oneway : bool; r_names : list reqname }.
Inductive reply := RepResult | RepError | RepNone.

(* ---------- Python attribute resolution on the instance / on its class ---------- *)
Definition is_class_member (m : member) : bool :=
  match m_kind m with KInstAttr | KHelper _ => false | _ => true end.
Definition is_prop (m : member) : bool := match m_kind m with KProp _ _ => true | _ => false end.
Definition is_method (m : member) : bool :=
  match m_kind m with KMethod | KStatic | KClassM => true | _ => false end.
Definition markable (m : member) : bool := is_method m || is_prop m.

Definition in_class (c : cls) (n : text) (m : member) : bool :=
  is_class_member m && cls_eqb (m_in m) c && text_eqb (m_name m) n.
Definition class_lookup (s : shape) (n : text) : option member :=
  match find (in_class Sub n) (s_members s) with
  | Some m => Some m
  | None => find (in_class Base n) (s_members s)
  end.
Definition inst_attr (s : shape) (n : text) : option member :=
  find (fun m => negb (is_class_member m) && text_eqb (m_name m) n) (s_members s).
(* getattr(obj, n): data descriptors of the class, then the instance dictionary, then the class *)
Definition inst_lookup (s : shape) (n : text) : option member :=
  match class_lookup s n with
  | Some m => if is_prop m then Some m
              else match inst_attr s n with Some a => Some a | None => Some m end
  | None => inst_attr s n
  end.

Section Gate.
Variable is_private : text -> bool.

(* ---------- decoration time: which function objects carry _pyroExposed ---------- *)
Definition cls_flag (s : shape) (c : cls) : bool :=
  match c with Base => s_base_exposed s | Sub => s_sub_exposed s end.
(* @expose on a function/property refuses private __name__s (raises; the member stays unmarked) *)
Definition own_mark_ok (m : member) : bool := m_mark m && negb (is_private (m_fname m)).
Definition own_mark_refused (m : member) : bool := markable m && m_mark m && is_private (m_fname m).
(* class-level @expose marks only the class's own non-private functions and property accessors *)
Definition exposed (s : shape) (m : member) : bool :=
  markable m && (own_mark_ok m || (cls_flag s (m_in m) && negb (is_private (m_name m)))).

(* ---------- _get_attribute ---------- *)
Inductive resolved := ResRefused | ResMethod (m : member) | ResNotCallable.

Definition get_attribute (q : quirks) (s : shape) (n : reqname) : list effect * resolved :=
  match n with
  | NOther => ([], ResRefused)
  | NStr t =>
    if is_private t then ([], ResRefused) else
    match inst_lookup s t with
    | None => ([], ResRefused)
    | Some m =>
      match m_kind m with
      | KProp g _ => (if q_call_runs_getter q && g then [(m, AGet)] else [], ResRefused)
      | KMethod | KStatic | KClassM => ([], if exposed s m then ResMethod m else ResRefused)
      | KHelper ce => ([], if ce then ResNotCallable else ResRefused)
      | KClassAttr | KInstAttr => ([], ResRefused)
      end
    end
  end.

(* a single (possibly oneway) method call: effects and whether a result (true) or an error (false) is produced *)
Definition serve_call (q : quirks) (s : shape) (n : reqname) : list effect * bool :=
  match get_attribute q s n with
  | (e, ResMethod m) => (e ++ [(m, ACall)], true)
  | (e, _) => (e, false)
  end.

(* the batch loop: members are resolved and called one after the other; the first one that is
   refused (or not callable) ends the batch with an error *)
Fixpoint serve_batch (q : quirks) (s : shape) (names : list reqname) : list effect * bool :=
  match names with
  | [] => ([], true)
  | n :: rest =>
    match serve_call q s n with
    | (e, true) => let r := serve_batch q s rest in (e ++ fst r, snd r)
    | (e, false) => (e, false)
    end
  end.

(* _get_exposed_property_value / _set_exposed_property_value: lookup on the class *)
Definition serve_attr (q : quirks) (s : shape) (a : acc) (n : reqname) : list effect * bool :=
  match n with
  | NOther => ([], false)
  | NStr t =>
    if negb (q_attr_private_unchecked q) && is_private t then ([], false) else
    match class_lookup s t with
    | Some m =>
      match m_kind m with
      | KProp g st =>
        if (match a with AGet => g | ASet => st | ACall => false end) && exposed s m
        then ([(m, a)], true) else ([], false)
      | _ => ([], false)
      end
    | None => ([], false)
    end
  end.

Definition first_name (r : request) : reqname :=
  match r_names r with n :: _ => n | [] => NOther end.

Definition serve_core (q : quirks) (s : shape) (r : request) : list effect * bool :=
  match r_kind r with
  | RCall => serve_call q s (first_name r)
  | RBatch => serve_batch q s (r_names r)
  | RGet => serve_attr q s AGet (first_name r)
  | RSet => serve_attr q s ASet (first_name r)
  end.

Definition serve (q : quirks) (s : shape) (r : request) : list effect * reply :=
  let '(e, ok) := serve_core q s r in
  (e, if r_oneway r then RepNone else if ok then RepResult else RepError).

(* ---------- _get_exposed_members (what get_metadata advertises) ---------- *)
Definition class_names (s : shape) : list text :=
  map m_name (filter is_class_member (s_members s)).
Definition advertised (s : shape) (want : member -> bool) (n : text) : bool :=
  negb (is_private n) &&
  match class_lookup s n with Some m => want m && exposed s m | None => false end.
Definition meta_methods (s : shape) : list text := filter (advertised s is_method) (class_names s).
Definition meta_attrs (s : shape) : list text := filter (advertised s is_prop) (class_names s).
Definition meta_oneway (s : shape) : list text :=
  filter (advertised s (fun m => is_method m && m_oneway m)) (class_names s).

(* ---------- well-formedness used by the metadata theorem ---------- *)
(* no instance attribute hides a class member, every property has a getter or a setter *)
Definition no_shadow (s : shape) : bool :=
  forallb (fun m => is_class_member m ||
                    match class_lookup s (m_name m) with None => true | Some _ => false end) (s_members s).
Definition props_have_accessor (s : shape) : bool :=
  forallb (fun m => match m_kind m with KProp false false => false | _ => true end) (s_members s).

End Gate.

(* The reserved dunder names of the pinned tree (Pyro5 5.16, commit 0bbf666): the normative set the
   property text calls "the reserved dunder names".  Props/C02.v proves that the list generated from
   the current source still contains every one of them. *)
Definition reserved_baseline : list text := [
  (* __init__ *) [95;95;105;110;105;116;95;95];
  (* __init_subclass__ *) [95;95;105;110;105;116;95;115;117;98;99;108;97;115;115;95;95];
  (* __class__ *) [95;95;99;108;97;115;115;95;95];
  (* __module__ *) [95;95;109;111;100;117;108;101;95;95];
  (* __weakref__ *) [95;95;119;101;97;107;114;101;102;95;95];
  (* __call__ *) [95;95;99;97;108;108;95;95];
  (* __new__ *) [95;95;110;101;119;95;95];
  (* __del__ *) [95;95;100;101;108;95;95];
  (* __repr__ *) [95;95;114;101;112;114;95;95];
  (* __str__ *) [95;95;115;116;114;95;95];
  (* __format__ *) [95;95;102;111;114;109;97;116;95;95];
  (* __nonzero__ *) [95;95;110;111;110;122;101;114;111;95;95];
  (* __bool__ *) [95;95;98;111;111;108;95;95];
  (* __coerce__ *) [95;95;99;111;101;114;99;101;95;95];
  (* __cmp__ *) [95;95;99;109;112;95;95];
  (* __eq__ *) [95;95;101;113;95;95];
  (* __ne__ *) [95;95;110;101;95;95];
  (* __hash__ *) [95;95;104;97;115;104;95;95];
  (* __ge__ *) [95;95;103;101;95;95];
  (* __gt__ *) [95;95;103;116;95;95];
  (* __le__ *) [95;95;108;101;95;95];
  (* __lt__ *) [95;95;108;116;95;95];
  (* __dir__ *) [95;95;100;105;114;95;95];
  (* __enter__ *) [95;95;101;110;116;101;114;95;95];
  (* __exit__ *) [95;95;101;120;105;116;95;95];
  (* __copy__ *) [95;95;99;111;112;121;95;95];
  (* __deepcopy__ *) [95;95;100;101;101;112;99;111;112;121;95;95];
  (* __sizeof__ *) [95;95;115;105;122;101;111;102;95;95];
  (* __getattr__ *) [95;95;103;101;116;97;116;116;114;95;95];
  (* __setattr__ *) [95;95;115;101;116;97;116;116;114;95;95];
  (* __hasattr__ *) [95;95;104;97;115;97;116;116;114;95;95];
  (* __getattribute__ *) [95;95;103;101;116;97;116;116;114;105;98;117;116;101;95;95];
  (* __delattr__ *) [95;95;100;101;108;97;116;116;114;95;95];
  (* __instancecheck__ *) [95;95;105;110;115;116;97;110;99;101;99;104;101;99;107;95;95];
  (* __subclasscheck__ *) [95;95;115;117;98;99;108;97;115;115;99;104;101;99;107;95;95];
  (* __getinitargs__ *) [95;95;103;101;116;105;110;105;116;97;114;103;115;95;95];
  (* __getnewargs__ *) [95;95;103;101;116;110;101;119;97;114;103;115;95;95];
  (* __getstate__ *) [95;95;103;101;116;115;116;97;116;101;95;95];
  (* __setstate__ *) [95;95;115;101;116;115;116;97;116;101;95;95];
  (* __reduce__ *) [95;95;114;101;100;117;99;101;95;95];
  (* __reduce_ex__ *) [95;95;114;101;100;117;99;101;95;101;120;95;95];
  (* __subclasshook__ *) [95;95;115;117;98;99;108;97;115;115;104;111;111;107;95;95]
]%N.

(* "dunder-shaped": longer than four characters, starts and ends with two underscores *)
Definition dunder_shaped (n : text) : bool :=
  (N.ltb 4%N (t_len n)) && (t_startswith n [95%N; 95%N]) && (t_endswith n [95%N; 95%N]).

(* ---------- specification vocabulary used by the theorems (Props/C02.v) ---------- *)
Section Spec.
Variable is_private : text -> bool.

(* explicitly exposed: @expose on the member itself (which @expose only accepts for a non-private
   function), or @expose on the very class whose body defines it *)
Definition explicitly_exposed (s : shape) (m : member) : Prop :=
  (m_mark m = true /\ is_private (m_fname m) = false) \/ cls_flag s (m_in m) = true.

(* the accessor that ran fits the request kind and the kind of member *)
Definition acc_fits (k : rkind) (a : acc) (m : member) : Prop :=
  match a with
  | ACall => (k = RCall \/ k = RBatch) /\ is_method m = true
  | AGet => k = RGet /\ exists st, m_kind m = KProp true st
  | ASet => k = RSet /\ exists g, m_kind m = KProp g true
  end.

(* what a name denotes: Python attribute resolution on the instance (calls) or on its class (attribute requests) *)
Definition denoted (s : shape) (k : rkind) (t : text) : option member :=
  match k with RCall | RBatch => inst_lookup s t | RGet | RSet => class_lookup s t end.

(* the requests the property allows to be served *)
Definition may_serve (s : shape) (k : rkind) (t : text) (m : member) (a : acc) : Prop :=
  denoted s k t = Some m /\ is_private t = false /\ acc_fits k a m /\ explicitly_exposed s m.

Definition reply_ok (oneway : bool) : reply := if oneway then RepNone else RepResult.
Definition reply_refused (oneway : bool) : reply := if oneway then RepNone else RepError.

Definition call_ok (s : shape) (n : reqname) : bool := snd (serve_call is_private quirks_none s n).
Fixpoint ok_prefix (s : shape) (names : list reqname) : list reqname :=
  match names with
  | [] => []
  | n :: rest => if call_ok s n then n :: ok_prefix s rest else []
  end.
End Spec.

(* ---------- recorded witnesses of the two deviations (findings/C02.json) ---------- *)
Definition q_getter_only := {| q_call_runs_getter := true; q_attr_private_unchecked := false |}.
Definition q_private_only := {| q_call_runs_getter := false; q_attr_private_unchecked := true |}.
(* class T: @expose def ping(self) ...; @property def secret(self) ...    — request: call "secret" *)
Definition w_ping : member :=
  {| m_id := 0; m_name := [112;105;110;103]%N; m_kind := KMethod; m_in := Sub; m_mark := true;
     m_fname := [112;105;110;103]%N; m_oneway := false |}.
Definition w_secret : member :=
  {| m_id := 1; m_name := [115;101;99;114;101;116]%N; m_kind := KProp true true; m_in := Sub; m_mark := false;
     m_fname := [115;101;99;114;101;116]%N; m_oneway := false |}.
Definition w1_shape := {| s_base_exposed := false; s_sub_exposed := false; s_members := [w_ping; w_secret] |}.
Definition w1_request := {| r_kind := RCall; r_oneway := false; r_names := [NStr (m_name w_secret)] |}.
(* class T: _hidden = expose(property(visible, ...))   — request: __getattr__ "_hidden" *)
Definition w_hidden : member :=
  {| m_id := 0; m_name := [95;104;105;100;100;101;110]%N; m_kind := KProp true true; m_in := Sub; m_mark := true;
     m_fname := [118;105;115;105;98;108;101]%N; m_oneway := false |}.
Definition w2_shape := {| s_base_exposed := false; s_sub_exposed := false; s_members := [w_hidden] |}.
Definition w2_request := {| r_kind := RGet; r_oneway := false; r_names := [NStr (m_name w_hidden)] |}.
(* a shape used for non-vacuity examples: exposed base class with a method, unexposed subclass overriding nothing *)
Definition w_run : member :=
  {| m_id := 2; m_name := [114;117;110]%N; m_kind := KMethod; m_in := Base; m_mark := false;
     m_fname := [114;117;110]%N; m_oneway := true |}.
Definition w_value : member :=
  {| m_id := 3; m_name := [118;97;108]%N; m_kind := KProp true false; m_in := Sub; m_mark := true;
     m_fname := [118;97;108]%N; m_oneway := false |}.
Definition w3_shape := {| s_base_exposed := true; s_sub_exposed := false; s_members := [w_ping; w_secret; w_run; w_value] |}.
