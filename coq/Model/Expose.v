(* C02 — exposure gate of the Pyro5 daemon (Pyro5/server.py: expose, _get_attribute,
   _get_exposed_property_value, _set_exposed_property_value, _get_exposed_members with its per-class
   cache, and the dispatch branches of Daemon.handleRequest).  Definitions only.

   A class shape describes one registered class: Sub(Base), each class with or without a class-level
   @expose, and a list of members.  The privacy predicate is a parameter; Props/C02.v and
   Harness/H02.v instantiate it with the function generated from the source (Gen/GenServer.v). *)
From Coq Require Import List NArith Arith Bool.
Import ListNotations.
From V Require Import Model.StrFun.

Inductive cls := Base | Sub.
Definition cls_eqb (a b : cls) : bool :=
  match a, b with Base, Base | Sub, Sub => true | _, _ => false end.

Inductive hook := HGetattr | HGetattribute.     (* the class's own __getattr__ / __getattribute__ *)

(* an accessor function of a property: a_own = @expose applied to it as part of this property (below @property /
   @x.setter ...); a_pre = the function object arrives already carrying _pyroExposed for a reason that is not an exposure
   of this property: it is at the same time an exposed method under another name, or it is taken over from a base
   class's property (Base.prop.getter(...)) whose accessors are marked *)
Record accd := { a_own : bool; a_pre : bool }.
(* what a class attribute whose descriptor __get__ raises does to the metadata scan (getattr(cls, name)) *)
Inductive raise_mode := ROnce | RAlways | RPark.   (* RPark: does not raise; re-enters get_metadata from inside the scan *)

Inductive kind :=
| KMethod | KStatic | KClassM           (* function / staticmethod / classmethod in a class body *)
| KProp (g st d : option accd)          (* property object: per accessor (getter, setter, deleter) None = absent *)
| KClassAttr                            (* plain class attribute (a number) *)
| KInstAttr                             (* plain instance attribute (a number) *)
| KHelper (class_exposed callable : bool)
                                        (* helper object stored in an instance attribute; its class has exposed methods
                                           of its own, may carry @expose (directly or inherited) and may define __call__ *)
| KHook (h : hook)                      (* attribute hook defined in a class body; as a function it is like KMethod *)
| KRaiser (r : raise_mode).             (* class attribute whose access on the class raises (once / always) — otherwise a plain value *)

Record member := {
  m_id : nat;          (* position in the shape, used to compare with the implementation's side-effect log *)
  m_name : text;       (* attribute name it is bound to *)
  m_kind : kind;
  m_in : cls;          (* class body it is defined in (ignored for instance attributes) *)
  m_mark : bool;       (* @expose was applied to this very function / to the property object *)
  m_fname : text;      (* __name__ of the function(s) (differs from m_name when bound under another name) *)
  m_oneway : bool      (* @oneway applied *)
}.

Record shape := { s_base_exposed : bool; s_sub_exposed : bool; s_members : list member }.

(* deviations of the code from the property, as switches (false = the property's behaviour) *)
Inductive acc_tag := TGet | TSet.
(* how handleRequest hands the arguments of an attribute read/write request to _get/_set_exposed_property_value *)
Inductive attr_form :=
| AFIndexed      (* by index: vargs[0] (, vargs[1]) — surplus arguments never reach the helpers *)
| AFStrict       (* by index, after checking the argument count: surplus positional arguments make the request an error *)
| AFStar         (* *vargs: a surplus positional argument binds the helpers' trailing only_exposed parameter *)
| AFStarKw.      (* *vargs, **kwargs: ... and so does a keyword argument only_exposed=... *)

Record quirks := {
  q_call_runs_getter : bool;        (* fixed in 88fe348: _get_attribute did getattr(obj, name) on a property *)
  q_attr_private_unchecked : bool;  (* fixed: __getattr__/__setattr__ requests skipped the privacy test *)
  q_helper_served : bool;           (* open: a callable instance of an @expose'd class stored in an attribute is called *)
  q_hook_getattribute : bool;       (* open: getattr(obj, name) in the gate runs the class's own __getattribute__ ... *)
  q_hook_getattr : bool;            (* ... and, when the name does not exist, its __getattr__ *)
  q_get_form : attr_form;           (* call form of the attribute read ... *)
  q_set_form : attr_form            (* ... and of the attribute write; /repo: AFIndexed; AFStar/AFStarKw are seeded change C02_6 *)
}.
Definition form_of (q : quirks) (a : acc_tag) : attr_form := match a with TGet => q_get_form q | TSet => q_set_form q end.
Definition hook_flag (q : quirks) (h : hook) : bool :=
  match h with HGetattribute => q_hook_getattribute q | HGetattr => q_hook_getattr q end.
Definition hooks_on (q : quirks) : bool := q_hook_getattribute q || q_hook_getattr q.
Definition quirks_none :=
  {| q_call_runs_getter := false; q_attr_private_unchecked := false; q_helper_served := false; q_hook_getattribute := false; q_hook_getattr := false; q_get_form := AFIndexed; q_set_form := AFIndexed |}.
(* the code as it is today (after the two repairs) *)
Definition quirks_asis :=
  {| q_call_runs_getter := false; q_attr_private_unchecked := false; q_helper_served := true; q_hook_getattribute := true; q_hook_getattr := true; q_get_form := AFIndexed; q_set_form := AFIndexed |}.

Inductive acc := ACall | AGet | ASet | AHelper | AHook.
Definition acc_eqb (a b : acc) : bool :=
  match a, b with
  | ACall, ACall | AGet, AGet | ASet, ASet | AHelper, AHelper | AHook, AHook => true
  | _, _ => false
  end.
Definition effect := (member * acc)%type.

Inductive reqname := NStr (t : text) | NOther.    (* NOther: any value that is not a string *)
Inductive rkind := RCall | RBatch | RGet | RSet.
(* the shape of a request beyond the member name(s): an attribute read carries (name, surplus...), an attribute write
   (name, value, surplus...), possibly keyword arguments; only the truthiness of surplus values can matter.
   r_names holds the effective name(s): for attribute requests what vargs[0] yields (NOther when it is not a string);
   r_missing: the positional arguments needed by the request kind are not all there. *)
Inductive argval := AFalsy | ATruthy.
Definition truthy (v : argval) : bool := match v with ATruthy => true | AFalsy => false end.
Record request := { r_kind : rkind; r_oneway : bool; r_names : list reqname;
                    r_missing : bool; r_surplus : list argval; r_kwargs : list (text * argval) }.
(* the well-formed request with no surplus *)
Definition mkreq (k : rkind) (ow : bool) (names : list reqname) : request :=
  {| r_kind := k; r_oneway := ow; r_names := names; r_missing := false; r_surplus := []; r_kwargs := [] |}.
Definition strip_surplus (r : request) : request :=
  {| r_kind := r_kind r; r_oneway := r_oneway r; r_names := r_names r; r_missing := r_missing r; r_surplus := []; r_kwargs := [] |}.
Definition only_exposed_text : text := [111;110;108;121;95;101;120;112;111;115;101;100]%N.
(* the value the helpers' only_exposed parameter receives; None = the call itself fails (TypeError) *)
Definition bind_only_exposed (f : attr_form) (r : request) : option bool :=
  match f with
  | AFIndexed => Some true
  | AFStrict => match r_surplus r with [] => Some true | _ => None end
  | AFStar => match r_surplus r with [] => Some true | [v] => Some (truthy v) | _ => None end
  | AFStarKw =>
      match r_surplus r, r_kwargs r with
      | [], [] => Some true
      | [v], [] => Some (truthy v)
      | [], [(k, v)] => if text_eqb k only_exposed_text then Some (truthy v) else None
      | _, _ => None
      end
  end.
Inductive reply := RepResult | RepError | RepNone.

(* ---------- Python attribute resolution on the instance / on its class ---------- *)
Definition is_class_member (m : member) : bool :=
  match m_kind m with KInstAttr | KHelper _ _ => false | _ => true end.
Definition is_prop (m : member) : bool := match m_kind m with KProp _ _ _ => true | _ => false end.
Definition is_method (m : member) : bool :=
  match m_kind m with KMethod | KStatic | KClassM | KHook _ => true | _ => false end.
Definition markable (m : member) : bool := is_method m || is_prop m.
Definition present (o : option accd) : bool := match o with Some _ => true | None => false end.
Definition marked_acc (o : option accd) : bool := match o with Some a => a_own a | None => false end.
Definition pre_acc (o : option accd) : bool := match o with Some a => a_pre a | None => false end.

Definition in_class (c : cls) (n : text) (m : member) : bool :=
  is_class_member m && cls_eqb (m_in m) c && text_eqb (m_name m) n.
Definition class_lookup (s : shape) (n : text) : option member :=
  match find (in_class Sub n) (s_members s) with
  | Some m => Some m
  | None => find (in_class Base n) (s_members s)
  end.
Definition inst_attr (s : shape) (n : text) : option member :=
  find (fun m => negb (is_class_member m) && text_eqb (m_name m) n) (s_members s).
(* getattr(obj, n): data descriptors of the class, then the instance dictionary, then the class *)
Definition inst_lookup (s : shape) (n : text) : option member :=
  match class_lookup s n with
  | Some m => if is_prop m then Some m
              else match inst_attr s n with Some a => Some a | None => Some m end
  | None => inst_attr s n
  end.
(* the class's attribute hook of a given sort, through the MRO *)
Definition is_hook (h : hook) (m : member) : bool :=
  match m_kind m, h with KHook HGetattr, HGetattr | KHook HGetattribute, HGetattribute => true | _, _ => false end.
Definition find_hook (s : shape) (h : hook) : option member :=
  match find (fun m => is_hook h m && cls_eqb (m_in m) Sub) (s_members s) with
  | Some m => Some m
  | None => find (fun m => is_hook h m && cls_eqb (m_in m) Base) (s_members s)
  end.
Definition hook_effect (q : quirks) (s : shape) (h : hook) : list effect :=
  if hook_flag q h then match find_hook s h with Some m => [(m, AHook)] | None => [] end else [].

(* attributes every instance has without any class body defining them and that Pyro5 does not reserve: __dict__, __doc__
   (plain values: found by getattr, so __getattr__ is not consulted; never exposed) *)
Definition implicit_attrs : list text :=
  [[95;95;100;105;99;116;95;95]%N; [95;95;100;111;99;95;95]%N].

Section Gate.
Variable is_private : text -> bool.

(* ---------- decoration time: which function objects carry _pyroExposed ---------- *)
Definition cls_flag (s : shape) (c : cls) : bool :=
  match c with Base => s_base_exposed s | Sub => s_sub_exposed s end.
(* the accessor whose mark decides for a property: fget or fset or fdel *)
Definition first_acc (g st d : option accd) : option accd :=
  match g with Some b => Some b | None => match st with Some b => Some b | None => d end end.
(* some own @expose was requested on the member: on the function / property object / an accessor function *)
Definition own_requested (m : member) : bool :=
  m_mark m || match m_kind m with KProp g st d => marked_acc g || marked_acc st || marked_acc d | _ => false end.
(* @expose on a function/property refuses private __name__s (raises; nothing gets marked) *)
Definition own_ok (m : member) : bool := negb (is_private (m_fname m)).
Definition own_mark_refused (m : member) : bool := markable m && own_requested m && is_private (m_fname m).
(* the own mark that counts: on the function itself; for a property on its first accessor — put there
   directly, or by @expose on the property object (which marks the first accessor only) *)
Definition own_decisive (m : member) : bool :=
  match m_kind m with
  | KProp g st d => match first_acc g st d with Some a => a_own a || m_mark m | None => false end
  | _ => m_mark m
  end.
(* the deciding accessor function of a property is already marked in its own right *)
Definition first_pre (m : member) : bool :=
  match m_kind m with KProp g st d => pre_acc (first_acc g st d) | _ => false end.
Definition any_pre (m : member) : bool :=
  match m_kind m with KProp g st d => pre_acc g || pre_acc st || pre_acc d | _ => false end.
(* class-level @expose marks the class's own non-private functions and all accessors of its own properties *)
Definition class_marked (s : shape) (m : member) : bool :=
  cls_flag s (m_in m) && negb (is_private (m_name m)) &&
  match m_kind m with KProp g st d => present (first_acc g st d) | _ => true end.
Definition exposed (s : shape) (m : member) : bool :=
  markable m && ((own_decisive m && own_ok m) || class_marked s m || first_pre m).

(* ---------- _get_attribute ---------- *)
Inductive resolved := ResRefused | ResMethod (m : member) | ResHelper (m : member) | ResNotCallable.

Definition get_attribute (q : quirks) (s : shape) (n : reqname) : list effect * resolved :=
  match n with
  | NOther => ([], ResRefused)
  | NStr t =>
    if is_private t then ([], ResRefused) else
    (* repaired code: a data descriptor of the class is refused before the instance is touched *)
    if negb (q_call_runs_getter q) && match class_lookup s t with Some m => is_prop m | None => false end
    then ([], ResRefused) else
    (* getattr(obj, t): __getattribute__ runs first; __getattr__ when the normal lookup fails *)
    let e1 := hook_effect q s HGetattribute in
    match inst_lookup s t with
    | None => (e1 ++ (if t_mem t implicit_attrs then [] else hook_effect q s HGetattr), ResRefused)
    | Some m =>
      match m_kind m with
      | KProp g _ _ => (e1 ++ (if q_call_runs_getter q && present g then [(m, AGet)] else []), ResRefused)
      | KMethod | KStatic | KClassM | KHook _ => (e1, if exposed s m then ResMethod m else ResRefused)
      | KHelper ce callable =>
          (e1, if ce then (if callable then (if q_helper_served q then ResHelper m else ResRefused) else ResNotCallable)
               else ResRefused)
      | KClassAttr | KInstAttr | KRaiser _ => (e1, ResRefused)
      end
    end
  end.

(* a single (possibly oneway) method call: effects and whether a result (true) or an error (false) is produced *)
Definition serve_call (q : quirks) (s : shape) (n : reqname) : list effect * bool :=
  match get_attribute q s n with
  | (e, ResMethod m) => (e ++ [(m, ACall)], true)
  | (e, ResHelper m) => (e ++ [(m, AHelper)], true)
  | (e, _) => (e, false)
  end.

(* the batch loop: members are resolved and called one after the other; the first one that is
   refused (or not callable) ends the batch with an error *)
Fixpoint serve_batch (q : quirks) (s : shape) (names : list reqname) : list effect * bool :=
  match names with
  | [] => ([], true)
  | n :: rest =>
    match serve_call q s n with
    | (e, true) => let r := serve_batch q s rest in (e ++ fst r, snd r)
    | (e, false) => (e, false)
    end
  end.

(* _get_exposed_property_value / _set_exposed_property_value: lookup on the class (no instance hook runs);
   the first accessor's mark decides, whichever accessor is asked for *)
Definition serve_attr_oe (q : quirks) (s : shape) (a : acc) (n : reqname) (only_exposed : bool) : list effect * bool :=
  match n with
  | NOther => ([], false)
  | NStr t =>
    if negb (q_attr_private_unchecked q) && is_private t then ([], false) else
    match class_lookup s t with
    | Some m =>
      match m_kind m with
      | KProp g st _ =>
        if (match a with AGet => present g | ASet => present st | _ => false end) && (negb only_exposed || exposed s m)
        then ([(m, a)], true) else ([], false)
      | _ => ([], false)
      end
    | None => ([], false)
    end
  end.

Definition serve_attr (q : quirks) (s : shape) (a : acc) (n : reqname) : list effect * bool :=
  serve_attr_oe q s a n true.

Definition first_name (r : request) : reqname :=
  match r_names r with n :: _ => n | [] => NOther end.

(* an attribute read/write: too few arguments -> error; otherwise the helper is called in the handler's form *)
Definition attr_request (q : quirks) (s : shape) (a : acc) (r : request) : list effect * bool :=
  if r_missing r then ([], false) else
  match bind_only_exposed (form_of q (match a with ASet => TSet | _ => TGet end)) r with
  | None => ([], false)
  | Some oe => serve_attr_oe q s a (first_name r) oe
  end.

Definition serve_core (q : quirks) (s : shape) (r : request) : list effect * bool :=
  match r_kind r with
  | RCall => serve_call q s (first_name r)
  | RBatch => serve_batch q s (r_names r)
  | RGet => attr_request q s AGet r
  | RSet => attr_request q s ASet r
  end.

Definition serve (q : quirks) (s : shape) (r : request) : list effect * reply :=
  let '(e, ok) := serve_core q s r in
  (e, if r_oneway r then RepNone else if ok then RepResult else RepError).

(* ---------- _get_exposed_members (what get_metadata advertises) ---------- *)
Definition class_names (s : shape) : list text :=
  map m_name (filter is_class_member (s_members s)).
Definition advertised (s : shape) (want : member -> bool) (n : text) : bool :=
  negb (is_private n) &&
  match class_lookup s n with Some m => want m && exposed s m | None => false end.
Definition meta_methods (s : shape) : list text := filter (advertised s is_method) (class_names s).
Definition meta_attrs (s : shape) : list text := filter (advertised s is_prop) (class_names s).
Definition meta_oneway (s : shape) : list text :=
  filter (advertised s (fun m => is_method m && m_oneway m)) (class_names s).
Definition metadata := (list text * list text * list text)%type.
Definition meta_of (s : shape) : metadata := (meta_methods s, meta_oneway s, meta_attrs s).

(* ---------- the per-class metadata cache, as a history over several registered objects ---------- *)
(* a daemon: the classes (shapes) it knows and, per registered object, the index of its class; the cache
   maps key(class index) to the metadata computed at the first request.  key = identity models
   "keyed by the class object"; several classes may carry the same name. *)
Definition cache := list (nat * metadata).
Fixpoint cache_find (k : nat) (c : cache) : option metadata :=
  match c with
  | [] => None
  | (k', md) :: c' => if Nat.eqb k k' then Some md else cache_find k c'
  end.
Definition empty_shape := {| s_base_exposed := false; s_sub_exposed := false; s_members := [] |}.
(* a class attribute whose access raises aborts the scan: get_metadata fails (None) and nothing is cached; a raiser
   that fires once lets the next scan through.  The answer, when there is one, is computed from the class alone. *)
Definition raiser_of (s : shape) : option raise_mode :=
  match find (fun m => match m_kind m with KRaiser _ => is_class_member m | _ => false end) (s_members s) with
  | Some m => match m_kind m with KRaiser r => Some r | _ => None end
  | None => None
  end.
Record mstate := { ms_cache : cache; ms_fired : list nat }.   (* fired: classes whose once-raiser has already raised *)
Definition ms_empty := {| ms_cache := []; ms_fired := [] |}.
Definition scan_store (key : nat -> nat) (classes : list shape) (st : mstate) (cid : nat) : option metadata * mstate :=
  let md := meta_of (nth cid classes empty_shape) in
  (Some md, {| ms_cache := (key cid, md) :: ms_cache st; ms_fired := ms_fired st |}).
Definition get_metadata (key : nat -> nat) (classes : list shape) (st : mstate) (cid : nat) : option metadata * mstate :=
  match cache_find (key cid) (ms_cache st) with
  | Some md => (Some md, st)
  | None =>
    match raiser_of (nth cid classes empty_shape) with
    | Some RAlways => (None, st)
    | Some ROnce =>
        if existsb (Nat.eqb cid) (ms_fired st) then scan_store key classes st cid
        else (None, {| ms_cache := ms_cache st; ms_fired := cid :: ms_fired st |})
    | _ => scan_store key classes st cid
    end
  end.
(* a history of get_metadata calls, each naming the class index of the object asked about *)
Fixpoint run_metadata (key : nat -> nat) (classes : list shape) (st : mstate) (hist : list nat) : list (option metadata) :=
  match hist with
  | [] => []
  | cid :: rest => let '(md, st') := get_metadata key classes st cid in md :: run_metadata key classes st' rest
  end.

(* ---------- well-formedness used by the metadata theorems ---------- *)
(* no instance attribute hides a class member; every advertised property has a getter or a setter *)
Definition no_shadow (s : shape) : bool :=
  forallb (fun m => is_class_member m ||
                    match class_lookup s (m_name m) with None => true | Some _ => false end) (s_members s).
Definition props_have_accessor (s : shape) : bool :=
  forallb (fun m => match m_kind m with KProp None None _ => false | _ => true end) (s_members s).
(* the shapes on which today's code and the property's behaviour coincide: no attribute hooks, no callable
   helper whose class carries @expose *)
Definition plain_shape (s : shape) : bool :=
  forallb (fun m => match m_kind m with KHook _ => false | KHelper true true => false | _ => true end) (s_members s).

End Gate.

(* The reserved dunder names of the pinned tree (Pyro5 5.16, commit 0bbf666): the normative set the
   property text calls "the reserved dunder names".  Props/C02.v proves that the list generated from
   the current source still contains every one of them. *)
Definition reserved_baseline : list text := [
  (* __init__ *) [95;95;105;110;105;116;95;95];
  (* __init_subclass__ *) [95;95;105;110;105;116;95;115;117;98;99;108;97;115;115;95;95];
  (* __class__ *) [95;95;99;108;97;115;115;95;95];
  (* __module__ *) [95;95;109;111;100;117;108;101;95;95];
  (* __weakref__ *) [95;95;119;101;97;107;114;101;102;95;95];
  (* __call__ *) [95;95;99;97;108;108;95;95];
  (* __new__ *) [95;95;110;101;119;95;95];
  (* __del__ *) [95;95;100;101;108;95;95];
  (* __repr__ *) [95;95;114;101;112;114;95;95];
  (* __str__ *) [95;95;115;116;114;95;95];
  (* __format__ *) [95;95;102;111;114;109;97;116;95;95];
  (* __nonzero__ *) [95;95;110;111;110;122;101;114;111;95;95];
  (* __bool__ *) [95;95;98;111;111;108;95;95];
  (* __coerce__ *) [95;95;99;111;101;114;99;101;95;95];
  (* __cmp__ *) [95;95;99;109;112;95;95];
  (* __eq__ *) [95;95;101;113;95;95];
  (* __ne__ *) [95;95;110;101;95;95];
  (* __hash__ *) [95;95;104;97;115;104;95;95];
  (* __ge__ *) [95;95;103;101;95;95];
  (* __gt__ *) [95;95;103;116;95;95];
  (* __le__ *) [95;95;108;101;95;95];
  (* __lt__ *) [95;95;108;116;95;95];
  (* __dir__ *) [95;95;100;105;114;95;95];
  (* __enter__ *) [95;95;101;110;116;101;114;95;95];
  (* __exit__ *) [95;95;101;120;105;116;95;95];
  (* __copy__ *) [95;95;99;111;112;121;95;95];
  (* __deepcopy__ *) [95;95;100;101;101;112;99;111;112;121;95;95];
  (* __sizeof__ *) [95;95;115;105;122;101;111;102;95;95];
  (* __getattr__ *) [95;95;103;101;116;97;116;116;114;95;95];
  (* __setattr__ *) [95;95;115;101;116;97;116;116;114;95;95];
  (* __hasattr__ *) [95;95;104;97;115;97;116;116;114;95;95];
  (* __getattribute__ *) [95;95;103;101;116;97;116;116;114;105;98;117;116;101;95;95];
  (* __delattr__ *) [95;95;100;101;108;97;116;116;114;95;95];
  (* __instancecheck__ *) [95;95;105;110;115;116;97;110;99;101;99;104;101;99;107;95;95];
  (* __subclasscheck__ *) [95;95;115;117;98;99;108;97;115;115;99;104;101;99;107;95;95];
  (* __getinitargs__ *) [95;95;103;101;116;105;110;105;116;97;114;103;115;95;95];
  (* __getnewargs__ *) [95;95;103;101;116;110;101;119;97;114;103;115;95;95];
  (* __getstate__ *) [95;95;103;101;116;115;116;97;116;101;95;95];
  (* __setstate__ *) [95;95;115;101;116;115;116;97;116;101;95;95];
  (* __reduce__ *) [95;95;114;101;100;117;99;101;95;95];
  (* __reduce_ex__ *) [95;95;114;101;100;117;99;101;95;101;120;95;95];
  (* __subclasshook__ *) [95;95;115;117;98;99;108;97;115;115;104;111;111;107;95;95]
]%N.

(* "dunder-shaped": longer than four characters, starts and ends with two underscores *)
Definition dunder_shaped (n : text) : bool :=
  (N.ltb 4%N (t_len n)) && (t_startswith n [95%N; 95%N]) && (t_endswith n [95%N; 95%N]).

(* ---------- specification vocabulary used by the theorems (Props/C02.v) ---------- *)
Section Spec.
Variable is_private : text -> bool.

(* explicitly exposed: @expose on the member itself — the function, the property object or one of its accessor
   functions (which @expose only accepts for a non-private function) — or @expose on the very class whose body defines it,
   or (property) one of its accessor functions is an explicitly exposed function in its own right *)
Definition explicitly_exposed (s : shape) (m : member) : Prop :=
  (own_requested m = true /\ is_private (m_fname m) = false) \/ cls_flag s (m_in m) = true \/ any_pre m = true.

(* Pyro5's rule for which explicit mark makes a member served: for a property the mark must sit on its first
   accessor (fget or fset or fdel) — @expose on the property object puts it there *)
Definition exposed_by_rule (s : shape) (m : member) : Prop :=
  (own_decisive m = true /\ is_private (m_fname m) = false) \/
  (cls_flag s (m_in m) = true /\ match m_kind m with KProp None None None => False | _ => True end) \/
  first_pre m = true.

(* the accessor that ran fits the request kind and the kind of member *)
Definition acc_fits (k : rkind) (a : acc) (m : member) : Prop :=
  match a with
  | ACall => (k = RCall \/ k = RBatch) /\ is_method m = true
  | AGet => k = RGet /\ exists b st d, m_kind m = KProp (Some b) st d
  | ASet => k = RSet /\ exists g b d, m_kind m = KProp g (Some b) d
  | AHelper | AHook => False
  end.

(* what a name denotes: Python attribute resolution on the instance (calls) or on its class (attribute requests) *)
Definition denoted (s : shape) (k : rkind) (t : text) : option member :=
  match k with RCall | RBatch => inst_lookup s t | RGet | RSet => class_lookup s t end.

(* the requests the property allows to be served *)
Definition may_serve (s : shape) (k : rkind) (t : text) (m : member) (a : acc) : Prop :=
  denoted s k t = Some m /\ is_private t = false /\ acc_fits k a m /\ exposed_by_rule s m.

(* the exact extent of the two open deviations of today's code *)
(* the __call__ of a helper object ran: only for a call/batch naming, by a non-private name, an instance attribute
   whose value is a callable instance of a class that carries @expose *)
Definition helper_boundary (s : shape) (k : rkind) (names : list reqname) (m : member) : Prop :=
  (k = RCall \/ k = RBatch) /\ In m (s_members s) /\ In (NStr (m_name m)) names /\
  is_private (m_name m) = false /\ m_kind m = KHelper true true.
(* an attribute hook ran: only the class's own __getattribute__/__getattr__, only for a call/batch, and only on
   behalf of a requested string name that is not private *)
Definition hook_boundary (s : shape) (k : rkind) (names : list reqname) (m : member) : Prop :=
  (k = RCall \/ k = RBatch) /\ In m (s_members s) /\ (exists h, m_kind m = KHook h) /\
  exists t, In (NStr t) names /\ is_private t = false.

Definition reply_ok (oneway : bool) : reply := if oneway then RepNone else RepResult.
Definition reply_refused (oneway : bool) : reply := if oneway then RepNone else RepError.

Definition call_ok (q : quirks) (s : shape) (n : reqname) : bool := snd (serve_call is_private q s n).
(* the batch members that are attempted: up to and including the first one that is not served *)
Fixpoint tried (q : quirks) (s : shape) (names : list reqname) : list reqname :=
  match names with
  | [] => []
  | n :: rest => n :: (if call_ok q s n then tried q s rest else [])
  end.

(* what the property allows to run *)
Definition legit (s : shape) (k : rkind) (names : list reqname) (m : member) (a : acc) : Prop :=
  In m (s_members s) /\ In (NStr (m_name m)) names /\ is_private (m_name m) = false /\
  acc_fits k a m /\ explicitly_exposed s m.
(* what a variant q of the code runs at most *)
Definition allowed (q : quirks) (s : shape) (k : rkind) (names : list reqname) (m : member) (a : acc) : Prop :=
  legit s k names m a \/
  (q_helper_served q = true /\ a = AHelper /\ helper_boundary s k names m) \/
  (hooks_on q = true /\ a = AHook /\ hook_boundary s k names m).
(* the two repaired deviations stay repaired *)
Definition safe_form (f : attr_form) : Prop := f = AFIndexed \/ f = AFStrict.
Definition repaired (q : quirks) : Prop :=
  q_call_runs_getter q = false /\ q_attr_private_unchecked q = false /\ safe_form (q_get_form q) /\ safe_form (q_set_form q).
(* ... and attribute-request arguments are taken by index without an argument-count check (today's code) *)
Definition indexed (q : quirks) : Prop := q_get_form q = AFIndexed /\ q_set_form q = AFIndexed.
End Spec.

(* registered objects: objs[o] = index of the class of object o *)
Definition class_of (objs : list nat) (o : nat) : nat := nth o objs 0.
Definition shape_of (classes : list shape) (objs : list nat) (o : nat) : shape := nth (class_of objs o) classes empty_shape.

(* ---------- recorded witnesses ---------- *)
Definition acc_plain := {| a_own := false; a_pre := false |}.
Definition acc_marked := {| a_own := true; a_pre := false |}.
Definition acc_foreign := {| a_own := false; a_pre := true |}.
Definition q_getter_only := {| q_call_runs_getter := true; q_attr_private_unchecked := false; q_helper_served := false; q_hook_getattribute := false; q_hook_getattr := false; q_get_form := AFIndexed; q_set_form := AFIndexed |}.
Definition q_private_only := {| q_call_runs_getter := false; q_attr_private_unchecked := true; q_helper_served := false; q_hook_getattribute := false; q_hook_getattr := false; q_get_form := AFIndexed; q_set_form := AFIndexed |}.
Definition q_helper_only := {| q_call_runs_getter := false; q_attr_private_unchecked := false; q_helper_served := true; q_hook_getattribute := false; q_hook_getattr := false; q_get_form := AFIndexed; q_set_form := AFIndexed |}.
Definition q_star_only := {| q_call_runs_getter := false; q_attr_private_unchecked := false; q_helper_served := false;
                           q_hook_getattribute := false; q_hook_getattr := false; q_get_form := AFStar; q_set_form := AFStar |}.
Definition q_hooks_only := {| q_call_runs_getter := false; q_attr_private_unchecked := false; q_helper_served := false; q_hook_getattribute := true; q_hook_getattr := true; q_get_form := AFIndexed; q_set_form := AFIndexed |}.
(* class T: @expose def ping(self) ...; @property def secret(self) ...    — request: call "secret" *)
Definition w_ping : member :=
  {| m_id := 0; m_name := [112;105;110;103]%N; m_kind := KMethod; m_in := Sub; m_mark := true;
     m_fname := [112;105;110;103]%N; m_oneway := false |}.
Definition w_secret : member :=
  {| m_id := 1; m_name := [115;101;99;114;101;116]%N; m_kind := KProp (Some acc_plain) (Some acc_plain) None; m_in := Sub; m_mark := false;
     m_fname := [115;101;99;114;101;116]%N; m_oneway := false |}.
Definition w1_shape := {| s_base_exposed := false; s_sub_exposed := false; s_members := [w_ping; w_secret] |}.
Definition w1_request := mkreq RCall false [NStr (m_name w_secret)].
(* class T: _hidden = expose(property(visible, ...))   — request: __getattr__ "_hidden" *)
Definition w_hidden : member :=
  {| m_id := 0; m_name := [95;104;105;100;100;101;110]%N; m_kind := KProp (Some acc_plain) (Some acc_plain) None; m_in := Sub; m_mark := true;
     m_fname := [118;105;115;105;98;108;101]%N; m_oneway := false |}.
Definition w2_shape := {| s_base_exposed := false; s_sub_exposed := false; s_members := [w_hidden] |}.
Definition w2_request := mkreq RGet false [NStr (m_name w_hidden)].
(* a shape used for non-vacuity examples: exposed base class with a oneway method, own-marked getter-only property *)
Definition w_run : member :=
  {| m_id := 2; m_name := [114;117;110]%N; m_kind := KMethod; m_in := Base; m_mark := false;
     m_fname := [114;117;110]%N; m_oneway := true |}.
Definition w_value : member :=
  {| m_id := 3; m_name := [118;97;108]%N; m_kind := KProp (Some acc_plain) None None; m_in := Sub; m_mark := true;
     m_fname := [118;97;108]%N; m_oneway := false |}.
Definition w3_shape := {| s_base_exposed := true; s_sub_exposed := false; s_members := [w_ping; w_secret; w_run; w_value] |}.
(* obj.tool = Tool() where Tool is an @expose'd class defining __call__   — request: call "tool" *)
Definition w_tool : member :=
  {| m_id := 1; m_name := [116;111;111;108]%N; m_kind := KHelper true true; m_in := Sub; m_mark := false;
     m_fname := [116;111;111;108]%N; m_oneway := false |}.
Definition w4_shape := {| s_base_exposed := false; s_sub_exposed := false; s_members := [w_ping; w_tool] |}.
Definition w4_request := mkreq RCall false [NStr (m_name w_tool)].
(* class T: @expose def ping ...; def __getattr__(self, name) ...   — request: call "anything" *)
Definition w_getattr : member :=
  {| m_id := 1; m_name := [95;95;103;101;116;97;116;116;114;95;95]%N; m_kind := KHook HGetattr; m_in := Sub; m_mark := false;
     m_fname := [95;95;103;101;116;97;116;116;114;95;95]%N; m_oneway := false |}.
Definition w5_shape := {| s_base_exposed := false; s_sub_exposed := false; s_members := [w_ping; w_getattr] |}.
Definition w5_request := mkreq RCall false [NStr [97;110;121]%N].
(* a property exposed only on its setter function: @property def lvl ...; @lvl.setter @expose def lvl(self, v) ... *)
Definition w_lvl : member :=
  {| m_id := 0; m_name := [108;118;108]%N; m_kind := KProp (Some acc_plain) (Some acc_marked) None; m_in := Sub; m_mark := false;
     m_fname := [108;118;108]%N; m_oneway := false |}.
Definition w6_shape := {| s_base_exposed := false; s_sub_exposed := false; s_members := [w_lvl] |}.
(* __getattr__ ("secret", False) on w1_shape: with *vargs the surplus False switches the exposure test off *)
Definition w7_request : request :=
  {| r_kind := RGet; r_oneway := false; r_names := [NStr (m_name w_secret)]; r_missing := false; r_surplus := [AFalsy]; r_kwargs := [] |}.
(* target = property(get_target, set_target) where set_target is also an @expose'd method: the property was never exposed,
   its SECOND accessor carries a mark in its own right *)
Definition w_set_target : member :=
  {| m_id := 0; m_name := [115;101;116;95;116]%N; m_kind := KMethod; m_in := Sub; m_mark := true;
     m_fname := [115;101;116;95;116]%N; m_oneway := false |}.
Definition w_target : member :=
  {| m_id := 1; m_name := [116;97;114;103;101;116]%N; m_kind := KProp (Some acc_plain) (Some acc_foreign) None; m_in := Sub; m_mark := false;
     m_fname := [116;97;114;103;101;116]%N; m_oneway := false |}.
Definition w8_shape := {| s_base_exposed := false; s_sub_exposed := false; s_members := [w_set_target; w_target] |}.
(* a class with a class attribute whose access raises during the metadata scan *)
Definition w_boom (r : raise_mode) : member :=
  {| m_id := 2; m_name := [107;97;98;111;111;109]%N; m_kind := KRaiser r; m_in := Sub; m_mark := false;
     m_fname := [107;97;98;111;111;109]%N; m_oneway := false |}.
Definition w9_shape (r : raise_mode) := {| s_base_exposed := true; s_sub_exposed := false; s_members := [w_ping; w_run; w_boom r] |}.
