(* C17 — model of Pyro5.socketutil.receive_data / send_data.
   A socket is a script of per-call behaviours; recursion is structural on the
   script.  Definitions only (proofs are in Proofs/SockIO.v). *)
From Coq Require Import List NArith Arith Bool.
Import ListNotations.
From V Require Import Model.Bytes.

Inductive sock_ev :=
| Deliver (k : nat)          (* recv/send transfers at most k bytes *)
| Eof                        (* recv returns b"" / send returns 0 *)
| Err (e : option N)         (* OSError with this errno *)
| Timeout.                   (* socket.timeout *)

Inductive rres :=
| ROk (d : bytes)
| RClosed (partial : option bytes)   (* ConnectionClosedError [with partialData] *)
| RTimeout                           (* TimeoutError *)
| RScriptEnd.                        (* script exhausted: the real loop would block *)

Record rout := mk_rout { r_res : rres; r_stream : bytes; r_script : list sock_ev; r_delays : nat }.

Section SockIO.
Variable retries : list N.   (* GenSockutil.errno_retries *)
Variable cap : nat.          (* GenSockutil.recv_cap as nat *)

Definition retryable (e : option N) : bool :=
  match e with
  | Some n => existsb (N.eqb n) retries
  | None => false
  end.

Definition finish (size : nat) (stream data : bytes) (script : list sock_ev) (delays : nat) : rout :=
  if length data =? size then mk_rout (ROk data) stream script delays
  else mk_rout (RClosed (Some data)) stream script delays.

(* the "old fashioned recv loop" *)
Fixpoint acc_loop (size : nat) (script : list sock_ev) (stream data : bytes) (delays : nat) : rout :=
  if size <=? length data then finish size stream data script delays
  else
    match script with
    | [] => mk_rout RScriptEnd stream [] delays
    | ev :: rest =>
      match ev with
      | Deliver k =>
          let n := Nat.min k (Nat.min cap (size - length data)) in
          match firstn n stream with
          | [] => finish size stream data rest delays
          | c => acc_loop size rest (skipn n stream) (data ++ c) delays
          end
      | Eof => finish size stream data rest delays
      | Timeout => mk_rout RTimeout stream rest delays
      | Err e =>
          if retryable e then acc_loop size rest stream data (S delays)
          else mk_rout (RClosed None) stream rest delays
      end
    end.

(* the MSG_WAITALL attempt *)
Fixpoint wa_loop (size : nat) (script : list sock_ev) (stream : bytes) (delays : nat) : rout :=
  match script with
  | [] => mk_rout RScriptEnd stream [] delays
  | ev :: rest =>
    match ev with
    | Deliver k =>
        let n := Nat.min k size in
        let c := firstn n stream in
        if length c =? size then mk_rout (ROk c) (skipn n stream) rest delays
        else acc_loop size rest (skipn n stream) c delays
    | Eof =>
        if 0 =? size then mk_rout (ROk []) stream rest delays
        else acc_loop size rest stream [] delays
    | Timeout => mk_rout RTimeout stream rest delays
    | Err e =>
        if retryable e then wa_loop size rest stream (S delays)
        else mk_rout (RClosed None) stream rest delays
    end
  end.

Definition receive_data (waitall : bool) (size : nat) (script : list sock_ev) (stream : bytes) : rout :=
  if waitall then wa_loop size script stream 0 else acc_loop size script stream [] 0.

(* ---- sending ---- *)
Inductive sres := SOk | SClosed | STimeout | SScriptEnd.
Record sout := mk_sout { s_res : sres; s_peer : bytes; s_script : list sock_ev; s_delays : nat }.

(* socket.sendall as the fake socket implements it: loop, any error raises *)
Fixpoint sendall (data : bytes) (script : list sock_ev) (peer : bytes) : sout :=
  match data with
  | [] => mk_sout SOk peer script 0
  | _ =>
    match script with
    | [] => mk_sout SScriptEnd peer [] 0
    | ev :: rest =>
      match ev with
      | Deliver k => sendall (skipn k data) rest (peer ++ firstn k data)
      | Eof => sendall data rest peer
      | Timeout => mk_sout STimeout peer rest 0
      | Err _ => mk_sout SClosed peer rest 0
      end
    end
  end.

(* the manual send loop used when the socket has a timeout *)
Fixpoint send_loop (data : bytes) (script : list sock_ev) (peer : bytes) (delays : nat) : sout :=
  match data with
  | [] => mk_sout SOk peer script delays
  | _ =>
    match script with
    | [] => mk_sout SScriptEnd peer [] delays
    | ev :: rest =>
      match ev with
      | Deliver k => send_loop (skipn k data) rest (peer ++ firstn k data) delays
      | Eof => send_loop data rest peer delays
      | Timeout => mk_sout STimeout peer rest delays
      | Err e =>
          if retryable e then send_loop data rest peer (S delays)
          else mk_sout SClosed peer rest delays
      end
    end
  end.

Definition send_data (blocking : bool) (data : bytes) (script : list sock_ev) (peer : bytes) : sout :=
  if blocking then sendall data script peer else send_loop data script peer 0.

End SockIO.
