(* C15 — the name server's operations as critical sections over a shared store,
   one step per storage primitive (memory back-end granularity).  Definitions only. *)
From Coq Require Import List NArith Arith Bool.
Import ListNotations.
From V Require Import Model.Bytes Model.Atomic.

Definition name := list N.
Definition val := N.                         (* a token standing for (uri, metadata) *)
Definition store := list (name * val).       (* python dict: insertion order, unique keys *)

Definition name_eqb := bytes_eqb.
Fixpoint s_mem (n : name) (s : store) : bool :=
  match s with [] => false | (k, _) :: s' => name_eqb k n || s_mem n s' end.
Fixpoint s_get (n : name) (s : store) : option val :=
  match s with [] => None | (k, v) :: s' => if name_eqb k n then Some v else s_get n s' end.
Fixpoint s_set (n : name) (v : val) (s : store) : store :=
  match s with
  | [] => [(n, v)]
  | (k, v') :: s' => if name_eqb k n then (k, v) :: s' else (k, v') :: s_set n v s'
  end.
Fixpoint s_del (n : name) (s : store) : store :=
  match s with [] => [] | (k, v) :: s' => if name_eqb k n then s' else (k, v) :: s_del n s' end.

Fixpoint prefixb (p n : name) : bool :=
  match p, n with
  | [], _ => true
  | x :: p', y :: n' => N.eqb x y && prefixb p' n'
  | _ :: _, [] => false
  end.

Inductive res :=
| ROk | RNamingError | RInternalError
| RCount (n : nat) | RVal (v : val) | RList (l : list (name * val)).

Record regs := mk_regs { r_found : bool; r_val : val; r_items : list name; r_acc : list (name * val);
                         r_results : list res }.
Definition regs0 : regs := mk_regs false 0%N [] [] [].
Definition push (r : regs) (x : res) : regs :=
  mk_regs (r_found r) (r_val r) (r_items r) (r_acc r) (r_results r ++ [x]).
Definition set_found (r : regs) (b : bool) : regs := mk_regs b (r_val r) (r_items r) (r_acc r) (r_results r).
Definition set_val (r : regs) (v : val) : regs := mk_regs (r_found r) v (r_items r) (r_acc r) (r_results r).
Definition set_items (r : regs) (l : list name) : regs := mk_regs (r_found r) (r_val r) l [] (r_results r).
Definition add_acc (r : regs) (kv : name * val) : regs :=
  mk_regs (r_found r) (r_val r) (r_items r) (r_acc r ++ [kv]) (r_results r).

Inductive nsop :=
| Register (n : name) (v : val) (safe : bool)
| RemoveName (n : name)
| RemovePrefix (p : name)            (* non-empty prefix *)
| Lookup (n : name)
| Count
| ListAll
| ListPrefix (p : name)              (* non-empty prefix *)
| SetMeta (n : name).

Notation nprog := (prog store regs).
Notation nunit := (unit_ store regs).

Section Ops.
Variable ns_name : name.               (* core.NAMESERVER_NAME, generated *)

(* ---- single storage primitives (each one instrumented yield point in the harness) ---- *)
Definition a_register_check (n : name) : store -> regs -> store * regs :=
  fun s r => if s_mem n s then (s, push (set_found r true) RNamingError) else (s, set_found r false).
Definition a_set (n : name) (v : val) : store -> regs -> store * regs :=
  fun s r => (s_set n v s, push r ROk).
Definition a_remove_check (n : name) : store -> regs -> store * regs :=
  fun s r => if s_mem n s && negb (name_eqb n ns_name) then (s, set_found r true)
             else (s, push (set_found r false) (RCount 0)).
(* `del storage[name]`: KeyError if it vanished in between *)
Definition a_del (n : name) : store -> regs -> store * regs :=
  fun s r => if s_mem n s then (s_del n s, push r (RCount 1)) else (s, push r RInternalError).
Definition a_lookup (n : name) : store -> regs -> store * regs :=
  fun s r => match s_get n s with Some v => (s, push r (RVal v)) | None => (s, push r RNamingError) end.
Definition a_count : store -> regs -> store * regs :=
  fun s r => (s, push r (RCount (length s))).
Definition a_everything : store -> regs -> store * regs :=
  fun s r => (s, push r (RList s)).
(* `for name in self.storage` — the proxy snapshots the keys in one primitive.  When
   nothing matches, the operation's result is already determined: [fin] records it
   (local code after the last shared access is not a step of its own). *)
Definition a_iter (p : name) (fin : regs -> regs) : store -> regs -> store * regs :=
  fun s r => let m := filter (prefixb p) (map fst s) in
             let r1 := set_items r m in
             (s, match m with [] => fin r1 | _ => r1 end).
(* `self.storage[name]` inside the listing loop: KeyError if it vanished *)
Definition a_getitem (n : name) (last : bool) (fin : regs -> regs) : store -> regs -> store * regs :=
  fun s r => match s_get n s with
             | Some v => let r1 := set_found (add_acc r (n, v)) true in (s, if last then fin r1 else r1)
             | None => (s, push (set_found r false) RInternalError)
             end.
Definition a_getmeta (n : name) : store -> regs -> store * regs :=
  fun s r => match s_get n s with
             | Some v => (s, set_val (set_found r true) v)
             | None => (s, push (set_found r false) RNamingError)
             end.
(* `self.storage[name] = uri, new_metadata` with the uri read before *)
Definition a_setmeta (n : name) : store -> regs -> store * regs :=
  fun s r => (s_set n (r_val r) s, push r ROk).
(* remove_items on the memory back-end: `if item in self: del self[item]` per item *)
Definition a_item_check (n : name) : store -> regs -> store * regs :=
  fun s r => (s, set_found r (s_mem n s)).
Definition a_item_del (n : name) : store -> regs -> store * regs :=
  fun s r => if s_mem n s then (s_del n s, r) else (s, push r RInternalError).

Definition is_nil {A} (l : list A) : bool := match l with [] => true | _ => false end.

Fixpoint getitems (l : list name) (fin : regs -> regs) (k : regs -> nprog) : nprog :=
  match l with
  | [] => Ret
  | n :: l' => Do (a_getitem n (is_nil l') fin)
                  (fun r => if r_found r then match l' with [] => k r | _ => getitems l' fin k end else Ret)
  end.

Fixpoint remove_items (l : list name) (k : nprog) : nprog :=
  match l with
  | [] => k
  | n :: l' => Do (a_item_check n) (fun r => if r_found r then Do (a_item_del n) (fun _ => remove_items l' k)
                                              else remove_items l' k)
  end.

Definition not_ns (n : name) : bool := negb (name_eqb n ns_name).

Definition list_prog (p : name) (fin : regs -> regs) (k : regs -> nprog) : nprog :=
  Do (a_iter p fin) (fun r => match r_items r with [] => k r | l => getitems l fin k end).

(* ---- the body of each operation ---- *)
Definition body_register (n : name) (v : val) (safe : bool) : nprog :=
  if safe then Do (a_register_check n) (fun r => if r_found r then Ret else Do (a_set n v) (fun _ => Ret))
  else Do (a_set n v) (fun _ => Ret).
Definition body_lookup (n : name) : nprog := Do (a_lookup n) (fun _ => Ret).
Definition body_count : nprog := Do a_count (fun _ => Ret).
Definition body_list_all : nprog := Do a_everything (fun _ => Ret).
Definition body_list_prefix (p : name) : nprog :=
  list_prog p (fun r => push r (RList (r_acc r))) (fun _ => Ret).
Definition body_setmeta (n : name) : nprog :=
  Do (a_getmeta n) (fun r => if r_found r then Do (a_setmeta n) (fun _ => Ret) else Ret).
Definition body_remove_name (n : name) : nprog :=
  Do (a_remove_check n) (fun r => if r_found r then Do (a_del n) (fun _ => Ret) else Ret).
Definition removable (r : regs) : list name := filter not_ns (map fst (r_acc r)).
Definition body_remove_prefix (p : name) : nprog :=
  list_prog p (fun r => push r (RCount (length (removable r)))) (fun r => remove_items (removable r) Ret).

Definition body (op : nsop) : nprog :=
  match op with
  | Register n v safe => body_register n v safe
  | RemoveName n => body_remove_name n
  | RemovePrefix p => body_remove_prefix p
  | Lookup n => body_lookup n
  | Count => body_count
  | ListAll => body_list_all
  | ListPrefix p => body_list_prefix p
  | SetMeta n => body_setmeta n
  end.

(* the code as it is when every method holds the lock for its whole body *)
Definition compile (op : nsop) : list nunit := [Locked (body op)].

(* the code as it was at the pinned commit: remove() tests membership outside the lock,
   lookup() and count() take no lock at all (kept for the _refuted theorem) *)
Definition a_del_if_found (n : name) : store -> regs -> store * regs :=
  fun s r => if r_found r then a_del n s r else (s, r).
Definition compile_unlocked (op : nsop) : list nunit :=
  match op with
  | RemoveName n => [Bare (a_remove_check n); Locked (Do (a_del_if_found n) (fun _ => Ret))]
  | Lookup n => [Bare (a_lookup n)]
  | Count => [Bare a_count]
  | _ => compile op
  end.

Definition mk_threads (comp : nsop -> list nunit) (progs : list (list nsop)) : nat -> thread store regs :=
  fun i => match nth_error progs i with
           | Some ops => mk_thread None (concat (map comp ops)) regs0
           | None => mk_thread None [] regs0
           end.
Definition init (comp : nsop -> list nunit) (s0 : store) (progs : list (list nsop)) : config store regs :=
  mk_config s0 None (mk_threads comp progs).

End Ops.
