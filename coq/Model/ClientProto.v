(* C03 — executable model of one Proxy talking to one Daemon over a faulty transport
   (DESIGN.md section 6, C03).  Definitions only.

   Follows Pyro5/client.py: Proxy._pyroInvoke (connect + handshake when there is no connection,
   increment-and-mask of the sequence number, send, early return for oneway, recv_stub with its
   message-type filter, __pyroCheckSequence, release of the connection on a communication error),
   _RemoteMethod.__call__ (retry loop), _StreamResultIterator.__next__ (refuses when the proxy has no
   connection), and the reply path of Pyro5/server.py handleRequest (a delivered request is executed
   once and answered with the request's sequence number; nothing is sent for oneway; the connection is
   closed by the server after a SecurityError).  The network is the one of tools/lib/loopback.py:
   per connection a FIFO of reply messages on their way to the client, a list of late replies that
   show up when the client next sends, and a reset flag.

   [r_req] / [p_req] are ghost fields (the unbounded number of the request); they influence nothing
   but the ghost flag [s_window_ok], and are used to state ownership of a reply. *)
From Coq Require Import List NArith Bool.
Import ListNotations.
Local Open Scope N_scope.

Definition M16 : N := 65536.

(* the kinds of call the property quantifies over *)
Inductive kind :=
| KNormal       (* p.echo(tok): returns a value            — through _RemoteMethod (retries) *)
| KRaise        (* p.boom(tok): raises ValueError(tok)      — through _RemoteMethod *)
| KSecErr       (* p.sec(tok): raises SecurityError(tok); the server closes afterwards *)
| KOneway       (* p.ow(tok): @oneway                       — through _RemoteMethod *)
| KBatch        (* batch of echo members                    — _pyroInvokeBatch, no retry loop *)
| KBatchRaise   (* batch whose last member raises *)
| KBatchOneway  (* batch(oneway=True) *)
| KAttr         (* p.attr: exposed property read            — _pyroInvoke directly, no retry loop *)
| KStream.      (* next(item stream)                        — refused locally when not connected *)

Inductive rkind := RResult | RExc | RSec.

(* what the network does with one client message (request or CONNECT) and its reply *)
Inductive fault :=
| FDeliver
| FDropReq            (* request lost *)
| FDropReply          (* request processed, reply lost *)
| FDelay              (* request processed, reply arrives after the client gave up *)
| FCut                (* request processed, reply truncated, then connection reset *)
| FResetBefore        (* connection reset, request never processed *)
| FResetAfter         (* request processed, connection reset, no reply bytes *)
| FResetAfterReply    (* request processed, full reply delivered, then connection reset *)
| FResetDelivered     (* request delivered into the server's buffer, then connection reset BEFORE the server
                         handles it: the server still reads and executes the request (exactly once), its
                         reply cannot be sent *)
| FStale (k : nat)    (* the k-th most recent earlier reply is replayed in front of the real one *)
| FDup                (* the reply is delivered twice *)
| FAlterSeq (d : N)   (* the sequence number of the reply is changed by d (mod 2^16) *)
| FWrongType.         (* the message type of the reply is changed *)

Inductive err := ETimeout | EClosed | EProtocol.

Record reply := mkReply { r_seq : N; r_tok : N; r_kind : rkind; r_type_ok : bool; r_req : N }.

Record conn := mkConn { c_queue : list reply; c_delayed : list reply; c_broken : bool; c_srvclosed : bool }.

Record state := mkState {
  p_seq : N;                 (* Proxy._pyroSeq *)
  p_req : N;                 (* ghost: number of requests sent so far (p_seq = p_req mod 2^16) *)
  p_conn : option conn;      (* Proxy._pyroConnection and the network state of that connection *)
  s_log : list N;            (* server: tokens executed, newest first *)
  s_replies : list reply;    (* every reply the server produced, newest first (replay material) *)
  s_window_ok : bool }.      (* ghost: every stale message read so far was less than 2^16 requests old *)

(* the defences and constants of the client, taken from Gen.GenClient by the theorems and the harness *)
Record defences := mkDef {
  d_release : bool;          (* _pyroRelease() in the CommunicationError handler of _pyroInvoke *)
  d_seqcheck : bool;         (* __pyroCheckSequence before the reply is used *)
  d_mask : N;
  d_retry_closed : bool; d_retry_timeout : bool; d_retry_protocol : bool }.

Inductive outcome :=
| OResult (tok req : N) | ORaised (tok req : N) | OSec (tok req : N) | ONone | OErr (e : err).

Definition rk (k : kind) : option rkind :=
  match k with
  | KNormal | KBatch | KAttr | KStream => Some RResult
  | KRaise | KBatchRaise => Some RExc
  | KSecErr => Some RSec
  | KOneway | KBatchOneway => None
  end.

Definition uses_retry (k : kind) : bool :=
  match k with KNormal | KRaise | KSecErr | KOneway => true | _ => false end.

Definition is_stream (k : kind) : bool := match k with KStream => true | _ => false end.
Definition is_sec (k : kind) : bool := match k with KSecErr => true | _ => false end.

Definition retryable (d : defences) (e : err) : bool :=
  match e with ETimeout => d_retry_timeout d | EClosed => d_retry_closed d | EProtocol => d_retry_protocol d end.

Definition next_fault (fs : list fault) : fault * list fault :=
  match fs with [] => (FDeliver, []) | f :: r => (f, r) end.

Definition empty_conn : conn := mkConn [] [] false false.

(* __pyroCreateConnection: CONNECT / CONNECTOK on a fresh connection under fault f *)
Definition connect (st : state) (f : fault) : err + conn :=
  match f with
  | FDeliver | FAlterSeq _ => inr empty_conn
  | FDup => inr (mkConn [mkReply (p_seq st) 0 RResult false (p_req st)] [] false false)
  | FResetAfterReply => inr (mkConn [] [] true false)
  | FDropReq | FDropReply | FDelay => inl ETimeout
  | FCut | FResetBefore | FResetAfter | FResetDelivered => inl EClosed
  | FStale k => match nth_error (s_replies st) k with Some _ => inl EProtocol | None => inr empty_conn end
  | FWrongType => inl EProtocol
  end.

Definition own_reply (k : kind) (tok seq req : N) : list reply :=
  match rk k with Some x => [mkReply seq tok x true req] | None => [] end.

Definition set_seq (s : N) (r : reply) : reply := mkReply s (r_tok r) (r_kind r) (r_type_ok r) (r_req r).
Definition set_badtype (r : reply) : reply := mkReply (r_seq r) (r_tok r) (r_kind r) false (r_req r).

(* what reaches the client's receive buffer now, what arrives late, and whether the connection is reset *)
Definition arrive (f : fault) (own olds : list reply) : list reply * list reply * bool :=
  match f with
  | FDeliver => (own, [], false)
  | FDropReply => ([], [], false)
  | FDelay => ([], own, false)
  | FCut | FResetAfter => ([], [], true)
  | FResetAfterReply => (own, [], true)
  | FStale k => ((match nth_error olds k with Some s => [s] | None => [] end) ++ own, [], false)
  | FDup => (own ++ own, [], false)
  | FAlterSeq d => (map (fun r => set_seq ((r_seq r + d) mod M16) r) own, [], false)
  | FWrongType => (map set_badtype own, [], false)
  | FDropReq | FResetBefore | FResetDelivered => ([], [], false)   (* handled in [serve] *)
  end.

Record att := mkAtt { a_res : err + outcome; a_st : state; a_fs : list fault }.

Definition outcome_of (m : reply) : outcome :=
  match r_kind m with RResult => OResult | RExc => ORaised | RSec => OSec end (r_tok m) (r_req m).

Definition with_conn (st : state) (c : option conn) : state :=
  mkState (p_seq st) (p_req st) c (s_log st) (s_replies st) (s_window_ok st).

(* a communication error inside the try-statement of _pyroInvoke *)
Definition fail (d : defences) (e : err) (st : state) (c : conn) (fs : list fault) : att :=
  mkAtt (inl e) (with_conn st (if d_release d then None else Some c)) fs.

(* the network and the server react to the request just sent on connection c (late replies already moved) *)
Definition serve (k : kind) (tok seq' req' : N) (pre : list reply) (c : conn) (log : list N) (reps : list reply)
                 (fs : list fault) : conn * list N * list reply * list fault :=
  if c_srvclosed c then (mkConn pre [] false true, log, reps, fs)
  else
    let (f, fs') := next_fault fs in
    match f with
    | FDropReq => (mkConn pre [] false false, log, reps, fs')
    | FResetBefore => (mkConn pre [] true false, log, reps, fs')
    | FResetDelivered => (mkConn pre [] true false, tok :: log, reps, fs')   (* executed; no reply was ever sent *)
    | _ =>
      let own := own_reply k tok seq' req' in
      let '(q, dl, br) := arrive f own reps in
      (mkConn (pre ++ q) dl br (is_sec k), tok :: log, own ++ reps, fs')
    end.

(* recv_stub + __pyroCheckSequence + use of the reply; st2 is the state after the request was sent *)
Definition read_reply (d : defences) (st2 : state) (c2 : conn) (fs2 : list fault) : att :=
  match c_queue c2 with
  | [] => fail d (if c_broken c2 || c_srvclosed c2 then EClosed else ETimeout) st2 c2 fs2
  | m :: q' =>
    let c3 := mkConn q' (c_delayed c2) (c_broken c2) (c_srvclosed c2) in
    let w := s_window_ok st2 && ((r_req m =? p_req st2) || (p_req st2 - r_req m <? M16)) in
    let st3 := mkState (p_seq st2) (p_req st2) (Some c3) (s_log st2) (s_replies st2) w in
    if negb (r_type_ok m) then fail d EProtocol st3 c3 fs2
    else if d_seqcheck d && negb (r_seq m =? p_seq st2) then fail d EProtocol st3 c3 fs2
    else mkAtt (inr (outcome_of m)) st3 fs2
  end.

(* the part of _pyroInvoke after the connection exists *)
Definition invoke (d : defences) (k : kind) (tok : N) (st : state) (c : conn) (fs : list fault) : att :=
  let seq' := N.land (p_seq st + 1) (d_mask d) in
  let req' := p_req st + 1 in
  if c_broken c then
    fail d EClosed (mkState seq' req' None (s_log st) (s_replies st) (s_window_ok st)) c fs
  else
    let pre := c_queue c ++ c_delayed c in
    let '(c2, log2, reps2, fs2) := serve k tok seq' req' pre c (s_log st) (s_replies st) fs in
    let st2 := mkState seq' req' (Some c2) log2 reps2 (s_window_ok st) in
    match rk k with
    | None => mkAtt (inr ONone) st2 fs2
    | Some _ => read_reply d st2 c2 fs2
    end.

(* one execution of _pyroInvoke (for a stream fetch: of _StreamResultIterator.__next__) *)
Definition attempt (d : defences) (k : kind) (tok : N) (st : state) (fs : list fault) : att :=
  match p_conn st with
  | Some c => invoke d k tok st c fs
  | None =>
    if is_stream k then mkAtt (inl EClosed) st fs
    else
      let (f, fs') := next_fault fs in
      match connect st f with
      | inl e => mkAtt (inl e) st fs'
      | inr c => invoke d k tok st c fs'
      end
  end.

(* _RemoteMethod.__call__: n = retries still allowed *)
Fixpoint attempts (d : defences) (k : kind) (tok : N) (n : nat) (st : state) (fs : list fault) : outcome * state :=
  let a := attempt d k tok st fs in
  match a_res a with
  | inr o => (o, a_st a)
  | inl e =>
    match n with
    | S n' => if retryable d e then attempts d k tok n' (a_st a) (a_fs a) else (OErr e, a_st a)
    | O => (OErr e, a_st a)
    end
  end.

Record call := mkCall { c_kind : kind; c_tok : N; c_faults : list fault }.

Definition eff_retries (retries : nat) (k : kind) : nat := if uses_retry k then retries else O.

Definition do_call (d : defences) (retries : nat) (st : state) (c : call) : outcome * state :=
  attempts d (c_kind c) (c_tok c) (eff_retries retries (c_kind c)) st (c_faults c).

(* a history: per call its outcome and the state after it *)
Fixpoint run (d : defences) (retries : nat) (st : state) (cs : list call) : list (outcome * state) :=
  match cs with
  | [] => []
  | c :: cs' => let r := do_call d retries st c in r :: run d retries (snd r) cs'
  end.

Definition final (st : state) (rs : list (outcome * state)) : state := last (map snd rs) st.

Definition init_state (seq0 : N) (connected : bool) : state :=
  mkState seq0 seq0 (if connected then Some empty_conn else None) [] [] true.

(* number of executions between two states (the log only grows) *)
Definition execs (st st' : state) : nat := length (s_log st') - length (s_log st).

(* ------------------------------------------------------------------ vocabulary of the property statements *)
(* the state in which the i-th call of a history starts *)
Definition before (st0 : state) (rs : list (outcome * state)) (i : nat) : state := nth i (st0 :: map snd rs) st0.

(* what call c must see when it gets an answer: its own token, the reply kind its method produces,
   and (ghost) a reply produced by a request sent during this very call *)
Definition own_outcome (c : call) (stb st' : state) (o : outcome) : Prop :=
  match o with
  | OResult t q => t = c_tok c /\ rk (c_kind c) = Some RResult /\ p_req stb < q <= p_req st'
  | ORaised t q => t = c_tok c /\ rk (c_kind c) = Some RExc /\ p_req stb < q <= p_req st'
  | OSec t q => t = c_tok c /\ rk (c_kind c) = Some RSec /\ p_req stb < q <= p_req st'
  | ONone => rk (c_kind c) = None
  | OErr _ => True
  end.

(* bounds on m = number of times the server executed the call's request; n = retries that apply to this kind *)
Definition exec_bound (n : nat) (c : call) (o : outcome) (m : nat) : Prop :=
  (m <= 1 + n)%nat /\
  match o with
  | OErr _ => rk (c_kind c) = None -> m = 0%nat        (* a failed oneway call was not delivered *)
  | ONone => (m <= 1)%nat                              (* oneway: never more than once, whatever the retries *)
  | _ => (1 <= m)%nat /\ (n = 0%nat -> m = 1%nat)      (* returned: at least once; exactly once without retries *)
  end.

(* the answer a call gets from a healthy transport *)
Definition expected (k : kind) (tok q : N) : outcome :=
  match rk k with
  | Some RResult => OResult tok q | Some RExc => ORaised tok q | Some RSec => OSec tok q | None => ONone
  end.

(* witnesses of the two necessity lemmas *)
Definition d_no_seqcheck : defences := mkDef true false 65535 true true false.
Definition d_no_release : defences := mkDef false true 65535 true true false.
Definition dup_history : list call := [mkCall KNormal 1 [FDup]; mkCall KNormal 2 []].
Definition late_history : list call := [mkCall KNormal 1 [FDelay]; mkCall KNormal 2 []; mkCall KNormal 3 []].
(* a late reply, 65535 oneway calls, then a call whose sequence number equals that of the late reply *)
Fixpoint oneways (n : nat) (tok : N) : list call :=
  match n with O => [] | S n' => mkCall KOneway tok [] :: oneways n' (tok + 1) end.
Definition wrap_history : list call :=
  mkCall KNormal 1 [FDelay] :: oneways (N.to_nat 65535) 2 ++ [mkCall KNormal 70000 []].
