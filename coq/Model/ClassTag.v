(* C04 — executable model of class re-creation during deserialisation:
   SerializerBase.dict_to_class / make_exception / recreate_classes and the per-serializer
   loads / loadsCall hooks of Pyro5/serializers.py.  The decision chain, the hook table and the
   run-time name tables are NOT written here: they are parameters, instantiated in Harness/H04.v and
   Props/C04.v with the tables that tools/gen/gen_classtag.py regenerates from the source on every run.
   Definitions only. *)
From Coq Require Import List NArith ZArith Bool String Ascii.
Import ListNotations.
From V Require Import Model.ClassTagDefs.

Local Open Scope N_scope.

(* ---------------------------------------------------------------- text helpers *)
Definition txt (s : string) : text := map (fun a => N.of_nat (nat_of_ascii a)) (list_ascii_of_string s).

Fixpoint text_eqb (a b : text) : bool :=
  match a, b with
  | [], [] => true
  | x :: a', y :: b' => (x =? y) && text_eqb a' b'
  | _, _ => false
  end.
Definition mem (s : text) (l : list text) : bool := existsb (text_eqb s) l.

Fixpoint prefixb (p s : text) : bool :=
  match p, s with
  | [], _ => true
  | x :: p', y :: s' => (x =? y) && prefixb p' s'
  | _ :: _, [] => false
  end.
Fixpoint substr (n s : text) : bool :=          (* python: n in s *)
  prefixb n s || match s with [] => false | _ :: r => substr n r end.
Definition suffixb (suf s : text) : bool := prefixb (rev suf) (rev s).

(* python: s.split('.', k) *)
Fixpoint split_dot (k : nat) (s : text) (cur : text) : list text :=
  match s with
  | [] => [rev cur]
  | c :: r => match k with
              | S k' => if c =? 46 then rev cur :: split_dot k' r [] else split_dot k r (c :: cur)
              | O => split_dot k r (c :: cur)
              end
  end.

Fixpoint assoc {A} (k : text) (l : list (text * A)) : option A :=
  match l with
  | [] => None
  | (k', v) :: r => if text_eqb k k' then Some v else assoc k r
  end.

(* strict UTF-8 decoding as bytes.decode("utf-8") does it; None = UnicodeDecodeError *)
Definition cont (c : N) : bool := (128 <=? c) && (c <=? 191).
Fixpoint utf8 (b : list N) : option text :=
  match b with
  | [] => Some []
  | c :: r =>
    if c <? 128 then option_map (cons c) (utf8 r)
    else if (194 <=? c) && (c <=? 223) then
      match r with
      | c1 :: r1 => if cont c1 then option_map (cons ((c - 192) * 64 + (c1 - 128))) (utf8 r1) else None
      | _ => None
      end
    else if (224 <=? c) && (c <=? 239) then
      match r with
      | c1 :: c2 :: r2 =>
        if cont c1 && cont c2 && (negb (c =? 224) || (160 <=? c1)) && (negb (c =? 237) || (c1 <=? 159))
        then option_map (cons ((c - 224) * 4096 + (c1 - 128) * 64 + (c2 - 128))) (utf8 r2) else None
      | _ => None
      end
    else if (240 <=? c) && (c <=? 244) then
      match r with
      | c1 :: c2 :: c3 :: r3 =>
        if cont c1 && cont c2 && cont c3 && (negb (c =? 240) || (144 <=? c1)) && (negb (c =? 244) || (c1 <=? 143))
        then option_map (cons ((c - 240) * 262144 + (c1 - 128) * 4096 + (c2 - 128) * 64 + (c3 - 128))) (utf8 r3) else None
      | _ => None
      end
    else None
  end.

(* ---------------------------------------------------------------- values *)
(* a class an instance of which the decoder builds *)
Inductive cls :=
| CNamed (path : text)                 (* a class the source names literally, e.g. Pyro5.core.URI *)
| CNs (ns name : text) (e : entry)     (* whatever ns.name is bound to at run time (entry e of the name table) *)
| CAll (name : text) (e : entry)       (* all_exceptions[name] *)
| CCustom (tag : text).                (* the object returned by the converter registered for tag *)

(* decoded literals (what serpent / marshal / json / msgpack hand to Pyro5) and re-created objects.
   A dict is its key list and its value list (same length, insertion order). *)
Inductive val :=
| VNone | VBool (b : bool) | VInt (z : Z) | VFloat (nz : bool) | VStr (s : text) | VBytes (b : list N)
| VOther (truthy : bool)               (* opaque, hashable, non-iterable scalar: complex, datetime, ... *)
| VExt (code : N) (data : list N)      (* msgpack ExtType *)
| VList (l : list val) | VTuple (l : list val) | VSet (l : list val) | VFrozen (l : list val)
| VDict (keys vals : list val)
| VObj (c : cls) (parts : list val).   (* an instance of c holding parts *)

Inductive err := ESecurity | ESerialize | EKeyError | EAttributeError | ETypeError | EValueError | EIndexError | EUnicodeDecode
               | ERemote.   (* CommunicationError of a proxy that tried to reach its daemon *)
Inductive outcome (A : Type) := Ok (a : A) | Rej (e : err).
Arguments Ok {A} a. Arguments Rej {A} e.

(* what decoding does besides computing a value *)
Inductive event :=
| EvConstruct (c : cls)                (* a constructor / __setstate__ / setattr of class c runs *)
| EvConverter (tag : text)             (* the application's registered converter runs *)
| EvImport (m : text)                  (* an import statement inside dict_to_class runs *)
| EvRemote.                            (* a re-created proxy is iterated / indexed / asked for an attribute: it connects to its daemon *)

Definition M (A : Type) : Type := list event * outcome A.

Definition key_is (k : text) (v : val) : bool := match v with VStr s => text_eqb s k | _ => false end.
Fixpoint lookup (k : text) (keys vals : list val) : option val :=      (* data.get(k) for a str key *)
  match keys, vals with
  | kk :: keys', v :: vals' => if key_is k kk then Some v else lookup k keys' vals'
  | _, _ => None
  end.
Fixpoint index_of (k : text) (keys : list val) : option nat :=
  match keys with
  | [] => None
  | kk :: keys' => if key_is k kk then Some O else option_map S (index_of k keys')
  end.
Definition has_key (k : text) (keys : list val) : bool := existsb (key_is k) keys.

Definition truthy (v : val) : bool :=
  match v with
  | VNone => false | VBool b => b | VInt z => negb (Z.eqb z 0) | VFloat nz => nz | VOther t => t
  | VStr s => negb (Nat.eqb (List.length s) 0) | VBytes b => negb (Nat.eqb (List.length b) 0)
  | VExt _ _ => true
  | VList l | VTuple l | VSet l | VFrozen l => negb (Nat.eqb (List.length l) 0)
  | VDict k _ => negb (Nat.eqb (List.length k) 0)
  | VObj _ _ => true
  end.

Fixpoint hashable (v : val) : bool :=
  match v with
  | VList _ | VSet _ | VDict _ _ => false
  | VTuple l | VFrozen l => forallb hashable l
  | _ => true
  end.

(* python: *v works *)
Definition iterable (v : val) : bool :=
  match v with
  | VStr _ | VBytes _ | VExt _ _ | VList _ | VTuple _ | VSet _ | VFrozen _ | VDict _ _ => true
  | _ => false
  end.

(* ---------------------------------------------------------------- dict_to_class: the decision *)
Inductive action :=
| ACustom (tag : text)                 (* return converter(classname, data) *)
| AReject (e : err)
| ASetState (c key : text)             (* x = c.__new__(c); x.__setstate__(data[key]) *)
| ANoArgs (c : text)                   (* return c() *)
| AMakeExc (c : cls)                   (* return make_exception(c, data) *)
| AWrapper (c key : text).             (* the exception wrapper around data[key] *)

Definition env_lookup (E : env) (ns name : text) : option entry :=
  match assoc ns (e_namespaces E) with Some t => assoc name t | None => None end.

Definition guard_passes (g : guard) (e : entry) : option bool :=   (* None = issubclass raises TypeError *)
  match g, e with
  | GuardNone, _ => Some true
  | _, EntOther => None
  | GuardBaseException, EntClass _ isexc _ => Some isexc
  | GuardPyroError, EntClass _ _ ispyro => Some ispyro
  end.

(* t = getattr(ns, name); [if issubclass(t, g):] return make_exception(t, data); None = falls through *)
Definition ns_lookup (E : env) (ns name : text) (g : guard) : option action :=
  match env_lookup E ns name with
  | None => Some (AReject EAttributeError)
  | Some e => match guard_passes g e with
              | None => Some (AReject ETypeError)
              | Some true => Some (AMakeExc (CNs ns name e))
              | Some false => None
              end
  end.

Fixpoint run_nss (E : env) (nss : list nsclause) (nsname short : text) : list text * option action :=
  match nss with
  | [] => ([], None)
  | NsClause names suffix ns imports g :: r =>
    if mem nsname names && match suffix with Some suf => suffixb suf short | None => true end
    then (imports, ns_lookup E ns short g)
    else run_nss E r nsname short
  end.

(* one clause on a str tag: None = test false; Some (imports, None) = matched, body fell through; Some (imports, Some a) = decided *)
Definition run_clause (E : env) (flag : text -> bool) (s : text) (c : clause) : option (list text * option action) :=
  match c with
  | ClSetState tag cl key => if text_eqb s tag then Some ([], Some (ASetState cl key)) else None
  | ClMakeExc tag cl => if text_eqb s tag then Some ([], Some (AMakeExc (CNamed cl))) else None
  | ClWrapper tag cl key => if text_eqb s tag then Some ([], Some (AWrapper cl key)) else None
  | ClPrefixTable prefix table =>
    if prefixb prefix s then Some ([], match assoc s table with Some cl => Some (ANoArgs cl) | None => None end) else None
  | ClPrefixNs prefix ns maxsplit idx g =>
    if prefixb prefix s then
      Some ([], match nth_error (split_dot (N.to_nat maxsplit) s []) (N.to_nat idx) with
                | None => Some (AReject EIndexError)
                | Some name => ns_lookup E ns name g
                end)
    else None
  | ClExcFlag flagkey use_all nss =>
    if flag flagkey then
      match (if use_all then assoc s (e_all E) else None) with
      | Some e => Some ([], Some (AMakeExc (CAll s e)))
      | None => match split_dot 1 s [] with
                | [nsname; short] => Some (run_nss E nss nsname short)
                | _ => Some ([], Some (AReject EValueError))
                end
      end
    else None
  end.

(* an if/elif group: the first clause whose test holds decides; None = no test held *)
Fixpoint run_group (E : env) (flag : text -> bool) (s : text) (g : list clause) : option (list text * option action) :=
  match g with
  | [] => None
  | c :: r => match run_clause E flag s c with Some x => Some x | None => run_group E flag s r end
  end.

Fixpoint run_chain (E : env) (flag : text -> bool) (s : text) (chain : list (list clause)) : list text * action :=
  match chain with
  | [] => ([], AReject ESerialize)                  (* raise errors.SerializeError("unsupported serialized class") *)
  | g :: r => match run_group E flag s g with
              | Some (imps, Some a) => (imps, a)
              | Some (imps, None) => let '(i2, a) := run_chain E flag s r in (imps ++ i2, a)
              | None => run_chain E flag s r
              end
  end.

(* the chain on a tag that is not a str: == is false, .startswith / .split do not exist (bytes: wrong argument type) *)
Definition nonstr_err (tag : val) : err := match tag with VBytes _ => ETypeError | _ => EAttributeError end.
Fixpoint run_chain_nonstr (flag : text -> bool) (tag : val) (chain : list clause) : action :=
  match chain with
  | [] => AReject ETypeError                        (* "unsupported serialized class: " + classname *)
  | (ClPrefixTable _ _ | ClPrefixNs _ _ _ _ _) :: _ => AReject (nonstr_err tag)
  | ClExcFlag flagkey _ _ :: r => if flag flagkey then AReject (nonstr_err tag) else run_chain_nonstr flag tag r
  | _ :: r => run_chain_nonstr flag tag r
  end.

(* python: needle in tag, for a tag that is not a str.  None = TypeError *)
Definition contains_nonstr (needle : text) (tag : val) : option bool :=
  match tag with
  | VTuple l | VFrozen l | VList l | VSet l => Some (existsb (key_is needle) l)
  | VDict k _ => Some (existsb (key_is needle) k)
  | VExt _ _ => Some false
  | _ => None
  end.

(* the statements before the chain, in source order, on the current value of the tag *)
Fixpoint run_pre (pre : list prestep) (reg : list text) (tag : val) : outcome val + action :=
  match pre with
  | [] => inl (Ok tag)
  | PreDecodeBytes :: r =>
    match tag with
    | VBytes b => match utf8 b with Some s => run_pre r reg (VStr s) | None => inr (AReject EUnicodeDecode) end
    | _ => run_pre r reg tag
    end
  | PreRegistry :: r =>
    if negb (hashable tag) then inr (AReject ETypeError)
    else match tag with
         | VStr s => if mem s reg then inr (ACustom s) else run_pre r reg tag
         | _ => run_pre r reg tag
         end
  | PreRefuse needle :: r =>
    match tag with
    | VStr s => if substr needle s then inr (AReject ESecurity) else run_pre r reg tag
    | _ => match contains_nonstr needle tag with
           | None => inr (AReject ETypeError)
           | Some true => inr (AReject ETypeError)      (* the refusal message concatenates str + non-str *)
           | Some false => run_pre r reg tag
           end
    end
  end.

Definition decide (E : env) (pre : list prestep) (chain : list (list clause)) (reg : list text)
           (tag : val) (flag : text -> bool) : list text * action :=
  match run_pre pre reg tag with
  | inr a => ([], a)
  | inl (Rej e) => ([], AReject e)
  | inl (Ok (VStr s)) => run_chain E flag s chain
  | inl (Ok t) => ([], run_chain_nonstr flag t (List.concat chain))
  end.

(* ---------------------------------------------------------------- dict_to_class / recreate_classes / hooks *)
Fixpoint seqM (ms : list (M val)) : M (list val) :=       (* left to right, stop at the first rejection *)
  match ms with
  | [] => ([], Ok [])
  | (lg, Rej e) :: _ => (lg, Rej e)
  | (lg, Ok v) :: r => let '(lg2, o) := seqM r in
                       (lg ++ lg2, match o with Ok vs => Ok (v :: vs) | Rej e => Rej e end)
  end.

Definition is_tagged (tagkey : text) (v : val) : bool :=
  match v with VDict keys _ => has_key tagkey keys | _ => false end.

Section Recreate.
  Variable E : env.
  Variable pre : list prestep.
  Variable chain : list (list clause).
  Variable tagkey : text.
  Variable argskey : text.
  Variable attrkey : option text.
  Variable handles_set handles_list handles_tuple handles_dict : bool.
  Variable ext_codes : list N.
  Variable reg : list text.

  (* A live client.Proxy forwards iteration, indexing, len() and unknown attributes to its remote object.  When the
     hooks hand dict_to_class members that are already objects (msgpack's object_hook), using such a member connects. *)
  Definition is_proxy (v : val) : bool :=
    match v with VObj (CNamed p) _ => text_eqb p (txt "Pyro5.client.Proxy") | _ => false end.

  Definition make_exception (c : cls) (keys vals : list val) : M val :=
    match lookup argskey keys vals with
    | None => ([], Rej EKeyError)
    | Some args =>
      if is_proxy args then ([EvRemote], Rej ERemote)
      else if negb (iterable args) then ([], Rej ETypeError)
      else match attrkey with
           | None => ([EvConstruct c], Ok (VObj c [args]))
           | Some ak =>
             match lookup ak keys vals with
             | None => ([EvConstruct c], Ok (VObj c [args]))
             | Some (VDict ks vs) => ([EvConstruct c], Ok (VObj c [args; VDict ks vs]))
             | Some (VObj c' ps) => if is_proxy (VObj c' ps) then ([EvConstruct c; EvRemote], Rej ERemote)
                                    else ([EvConstruct c], Rej EAttributeError)
             | Some _ => ([EvConstruct c], Rej EAttributeError)     (* no .items() *)
             end
           end
    end.

  (* serpent: data.get("__class__") == "float" -> float(data[key]) *)
  Definition float_special (x : val) : M val :=
    match x with
    | VFloat _ | VInt _ | VBool _ | VStr _ | VBytes _ => ([], Ok (VFloat true))
    | _ => ([], Rej ETypeError)
    end.

  (* dict_to_class on a tagged dict.  [sub] holds, for every value of the dict, the result of the base-class
     dict_to_class on that value (consulted by the exception-wrapper branch only). *)
  Definition d2c_node (special : option (text * text)) (sub : list (M val)) (keys vals : list val) : M val :=
    let tag := match lookup tagkey keys vals with Some t => t | None => VStr (txt "<unknown>") end in
    let flag := fun k => match lookup k keys vals with Some v => truthy v | None => false end in
    match (match special with
           | Some (ftag, fkey) => if key_is ftag tag then Some fkey else None
           | None => None
           end) with
    | Some fkey => match lookup fkey keys vals with None => ([], Rej EKeyError) | Some x => float_special x end
    | None =>
      if is_proxy tag then ([EvRemote], Rej ERemote) else
      let '(imps, act) := decide E pre chain reg tag flag in
      let lg := map EvImport imps in
      match act with
      | ACustom t => (lg ++ [EvConverter t], Ok (VObj (CCustom t) []))
      | AReject e => (lg, Rej e)
      | ASetState c key => match lookup key keys vals with
                           | None => (lg, Rej EKeyError)
                           | Some st => if is_proxy st then (lg ++ [EvConstruct (CNamed c); EvRemote], Rej ERemote)
                                        else (lg ++ [EvConstruct (CNamed c)], Ok (VObj (CNamed c) [st]))
                           end
      | ANoArgs c => (lg ++ [EvConstruct (CNamed c)], Ok (VObj (CNamed c) []))
      | AMakeExc c => let '(lg2, o) := make_exception c keys vals in (lg ++ lg2, o)
      | AWrapper c key =>
        match lookup key keys vals, index_of key keys with
        | Some ex, Some i =>
          if is_tagged tagkey ex then
            match nth_error sub i with
            | Some (lg2, Ok v) => (lg ++ lg2 ++ [EvConstruct (CNamed c)], Ok (VObj (CNamed c) [v]))
            | Some (lg2, Rej e) => (lg ++ lg2, Rej e)
            | None => (lg, Rej ETypeError)
            end
          else (lg ++ [EvConstruct (CNamed c)], Ok (VObj (CNamed c) [ex]))
        | _, _ => (lg, Rej EKeyError)
        end
      end
    end.

  (* SerializerBase.dict_to_class(v) on raw data (no serializer special) *)
  Fixpoint d2c_raw (v : val) : M val :=
    match v with
    | VDict keys vals => d2c_node None (map d2c_raw vals) keys vals
    | _ => ([], Rej ETypeError)
    end.

  Definition lift (f : list val -> val) (m : M (list val)) : M val :=
    let '(lg, o) := m in (lg, match o with Ok l => Ok (f l) | Rej e => Rej e end).

  (* recreate_classes (top-down: a tagged dict is handed to dict_to_class with its members untouched) *)
  Fixpoint rc_top (special : option (text * text)) (v : val) : M val :=
    match v with
    | VSet l => if handles_set then lift VSet (seqM (map (rc_top special) l)) else ([], Ok v)
    | VList l => if handles_list then lift VList (seqM (map (rc_top special) l)) else ([], Ok v)
    | VTuple l => if handles_tuple then lift VTuple (seqM (map (rc_top special) l)) else ([], Ok v)
    | VDict keys vals =>
      if handles_dict then
        if has_key tagkey keys then d2c_node special (map d2c_raw vals) keys vals
        else lift (VDict keys) (seqM (map (rc_top special) vals))
      else ([], Ok v)
    | _ => ([], Ok v)
    end.

  (* msgpack's ext_hook, applied by the library to every ext value while it decodes *)
  Definition ext_value (ext_hook : bool) (code : N) (data : list N) : M val :=
    if ext_hook then (if existsb (N.eqb code) ext_codes then ([], Ok (VOther true)) else ([], Rej ESerialize))
    else ([], Ok (VExt code data)).
  Fixpoint ext_pass (ext_hook : bool) (v : val) : M val :=
    match v with
    | VExt code data => ext_value ext_hook code data
    | VList l => lift VList (seqM (map (ext_pass ext_hook) l))
    | VTuple l => lift VTuple (seqM (map (ext_pass ext_hook) l))
    | VDict keys vals => lift (VDict keys) (seqM (map (ext_pass ext_hook) vals))
    | _ => ([], Ok v)
    end.

  (* msgpack: object_hook on every map once its members are decoded, ext_hook on every ext value *)
  Fixpoint rc_bottom (object_hook ext_hook : bool) (v : val) : M val :=
    match v with
    | VList l => lift VList (seqM (map (rc_bottom object_hook ext_hook) l))
    | VTuple l => lift VTuple (seqM (map (rc_bottom object_hook ext_hook) l))
    | VDict keys vals =>
      let '(lg, o) := seqM (map (rc_bottom object_hook ext_hook) vals) in
      match o with
      | Rej e => (lg, Rej e)
      | Ok vals' =>
        if object_hook && has_key tagkey keys then
          let '(lg2, o2) := d2c_node None (map (fun _ => ([], Rej ETypeError)) vals') keys vals' in (lg ++ lg2, o2)
        else (lg, Ok (VDict keys vals'))
      end
    | VExt code data => ext_value ext_hook code data
    | _ => ([], Ok v)
    end.

  (* the parts of a message: one part for loads, (object, method, vargs, kwargs) for loadsCall *)
  Fixpoint replace_nth (i : nat) (x : val) (l : list val) : list val :=
    match l, i with
    | [], _ => []
    | _ :: r, O => x :: r
    | y :: r, S i' => y :: replace_nth i' x r
    end.

  (* each listed part is read from the decoded message and its re-created form stored in its place *)
  Fixpoint top_positions (special : option (text * text)) (ps : list N) (orig cur : list val) : M (list val) :=
    match ps with
    | [] => ([], Ok cur)
    | p :: r =>
      let i := N.to_nat (p - 1) in
      match nth_error orig i with
      | None => ([], Rej EIndexError)
      | Some v => match rc_top special v with
                  | (lg, Rej e) => (lg, Rej e)
                  | (lg, Ok v') => let '(lg2, o) := top_positions special r orig (replace_nth i v' cur) in (lg ++ lg2, o)
                  end
      end
    end.

  Definition run_mode (special : option (text * text)) (mode : hookmode) (parts : list val) : M (list val) :=
    match mode with
    | TopDown ps eh =>
      match seqM (map (ext_pass eh) parts) with
      | (lg, Rej e) => (lg, Rej e)
      | (lg, Ok parts') => let '(lg2, o) := top_positions special ps parts' parts' in (lg ++ lg2, o)
      end
    | BottomUp oh eh => seqM (map (rc_bottom oh eh) parts)
    end.
End Recreate.

Definition find_mode (hooks : list (N * bool * hookmode)) (ser : N) (call : bool) : option hookmode :=
  match find (fun h => (fst (fst h) =? ser) && Bool.eqb (snd (fst h)) call) hooks with
  | Some h => Some (snd h)
  | None => None
  end.
Definition find_special (specials : list (N * (text * text))) (ser : N) : option (text * text) :=
  match find (fun h => fst h =? ser) specials with Some h => Some (snd h) | None => None end.

(* ---------------------------------------------------------------- the closed set *)
Definition fixed_allowed : list text :=
  [txt "Pyro5.core.URI"; txt "Pyro5.client.Proxy"; txt "Pyro5.server.Daemon";
   txt "Pyro5.serializers.SerpentSerializer"; txt "Pyro5.serializers.MarshalSerializer";
   txt "Pyro5.serializers.JsonSerializer"; txt "Pyro5.serializers.MsgpackSerializer";
   txt "Pyro5.core._ExceptionWrapper"; txt "struct.error"].
Definition ns_builtins := txt "builtins".
Definition ns_errors := txt "Pyro5.errors".
Definition ns_sqlite3 := txt "sqlite3".
Definition allowed_imports : list text := [ns_sqlite3].

(* an entry that is an exception class suitable for namespace ns *)
Definition exc_entry (ns : text) (e : entry) : bool :=
  match e with
  | EntClass _ isexc ispyro => if text_eqb ns ns_errors then ispyro else isexc && mem ns [ns_builtins; ns_sqlite3]
  | EntOther => false
  end.

Definition in_table (name : text) (e : entry) (t : option (list (text * entry))) : bool :=
  match t with
  | Some t => match assoc name t with
              | Some (EntClass c x p) => match e with EntClass c' x' p' => text_eqb c c' && Bool.eqb x x' && Bool.eqb p p' | _ => false end
              | _ => false
              end
  | None => false
  end.

(* the classes the property allows: the fixed Pyro types, and exception classes bound in builtins / Pyro5.errors
   (PyroError subclasses) / sqlite3 *)
Definition allowed_cls (E : env) (c : cls) : bool :=
  match c with
  | CNamed p => mem p fixed_allowed
  | CNs ns name e => exc_entry ns e && in_table name e (assoc ns (e_namespaces E))
  | CAll name e =>
    (exc_entry ns_builtins e && in_table name e (assoc ns_builtins (e_namespaces E))) ||
    (exc_entry ns_errors e && in_table name e (assoc ns_errors (e_namespaces E)))
  | CCustom _ => false
  end.

(* computed conditions on the generated tables *)
Definition guard_ok (ns : text) (g : guard) : bool :=
  match g with
  | GuardPyroError => text_eqb ns ns_errors
  | GuardBaseException => mem ns [ns_builtins; ns_sqlite3]
  | GuardNone => false
  end.
Definition nsclause_ok (c : nsclause) : bool :=
  match c with NsClause _ _ ns imports g => guard_ok ns g && forallb (fun m => mem m allowed_imports) imports end.
Definition clause_ok (c : clause) : bool :=
  match c with
  | ClSetState _ cl _ | ClMakeExc _ cl | ClWrapper _ cl _ => mem cl fixed_allowed
  | ClPrefixTable _ table => forallb (fun p => mem (snd p) fixed_allowed) table
  | ClPrefixNs _ ns _ _ g => guard_ok ns g
  | ClExcFlag _ _ nss => forallb nsclause_ok nss
  end.
Definition chain_ok (chain : list (list clause)) : bool := forallb (forallb clause_ok) chain.
Definition env_ok (E : env) : bool :=
  forallb (fun p => allowed_cls E (CAll (fst p) (snd p))) (e_all E).

Definition mode_topdown (m : hookmode) : bool := match m with TopDown _ _ => true | BottomUp _ _ => false end.
Definition hooks_topdown (hooks : list (N * bool * hookmode)) : bool := forallb (fun h => mode_topdown (snd h)) hooks.

Definition is_refuse (needle : text) (p : prestep) : bool :=
  match p with PreRefuse n => text_eqb n needle | _ => false end.
Definition decodes_first (pre : list prestep) : bool :=
  match pre with PreDecodeBytes :: _ => true | _ => false end.
(* a registry step occurs, and no refusal precedes it *)
Fixpoint registry_before_refuse (pre : list prestep) : bool :=
  match pre with
  | [] => false
  | PreRegistry :: _ => true
  | PreRefuse _ :: _ => false
  | PreDecodeBytes :: r => registry_before_refuse r
  end.

(* ---------------------------------------------------------------- predicates on values and logs *)
Fixpoint vall (P : cls -> Prop) (v : val) : Prop :=        (* every object inside v is of a class satisfying P *)
  let all := fix all (l : list val) : Prop := match l with [] => True | x :: r => vall P x /\ all r end in
  match v with
  | VList l | VTuple l | VSet l | VFrozen l => all l
  | VDict k vs => all k /\ all vs
  | VObj c parts => P c /\ all parts
  | _ => True
  end.
Definition plain (v : val) : Prop := vall (fun _ => False) v.

Definition class_ok (E : env) (reg : list text) (c : cls) : Prop :=
  allowed_cls E c = true \/ exists t, c = CCustom t /\ In t reg.
Definition event_ok (E : env) (reg : list text) (ev : event) : Prop :=
  match ev with
  | EvConstruct c => allowed_cls E c = true
  | EvConverter t => In t reg
  | EvImport m => In m allowed_imports
  | EvRemote => False
  end.

(* classes of the objects inside a value (with repetitions) *)
Fixpoint census (v : val) : list cls :=
  match v with
  | VList l | VTuple l | VSet l | VFrozen l => flat_map census l
  | VDict k vs => flat_map census k ++ flat_map census vs
  | VObj c parts => c :: flat_map census parts
  | _ => []
  end.

(* ---------------------------------------------------------------- the converter registries as state *)
(* register_x / unregister_x are classmethods: they can be called on SerializerBase (= Pyro5.api) or on a concrete
   serializer class.  A history is a list of such calls; decoding with serializer s then consults the registry that
   s's class resolves to.  [inplace] is generated from the source: true = the methods change the one class-level
   dict in place; false = they rebind the attribute through cls, which gives a subclass a shadowing copy. *)
Inductive regkind := KD2C | KC2D.
Inductive entrypoint := EpBase | EpSer (s : N).
(* op_bytes: the tag argument was spelled as bytes (op_tag then holds the bytes); otherwise op_tag is the text *)
Record regop := { op_add : bool; op_ep : entrypoint; op_kind : regkind; op_bytes : bool; op_tag : text }.

(* The dict key a call uses for its tag argument.  [norm] (generated, separately for register and unregister) says
   whether the method decodes a bytes argument to text first, as dict_to_class does with a bytes tag; a failing decode
   raises and leaves the registry untouched (None).  A bytes argument that is not decoded becomes a bytes key, which no
   text tag ever equals: it is kept apart by a leading mark that is not a code point. *)
Definition bytes_key_mark : N := 1114112.
Definition key_of (norm : bool) (op : regop) : option text :=
  if op_bytes op then (if norm then utf8 (op_tag op) else Some (bytes_key_mark :: op_tag op)) else Some (op_tag op).
Record regstate := { rs_base : list text; rs_shadow : list (N * list text) }.

Definition kind_eqb (a b : regkind) : bool := match a, b with KD2C, KD2C | KC2D, KC2D => true | _, _ => false end.
Definition add_tag (t : text) (l : list text) : list text := if mem t l then l else t :: l.
Definition del_tag (t : text) (l : list text) : list text := filter (fun x => negb (text_eqb x t)) l.
Definition upd (add : bool) (t : text) (l : list text) : list text := if add then add_tag t l else del_tag t l.
Fixpoint shadow_of (s : N) (sh : list (N * list text)) : option (list text) :=
  match sh with [] => None | (s', l) :: r => if s =? s' then Some l else shadow_of s r end.
Definition set_shadow (s : N) (l : list text) (sh : list (N * list text)) : list (N * list text) :=
  (s, l) :: filter (fun p => negb (fst p =? s)) sh.
(* the registry serializer class s sees *)
Definition view (st : regstate) (s : N) : list text :=
  match shadow_of s (rs_shadow st) with Some l => l | None => rs_base st end.

Definition reg_step_key (inplace : bool) (st : regstate) (op : regop) (key : text) : regstate :=
  match op_ep op with
  | EpBase => {| rs_base := upd (op_add op) key (rs_base st); rs_shadow := rs_shadow st |}
  | EpSer s =>
    match shadow_of s (rs_shadow st) with
    | Some l => {| rs_base := rs_base st; rs_shadow := set_shadow s (upd (op_add op) key l) (rs_shadow st) |}
    | None =>
      if inplace then {| rs_base := upd (op_add op) key (rs_base st); rs_shadow := rs_shadow st |}
      else if op_add op || mem key (rs_base st)     (* unregister of an absent tag rebinds nothing *)
           then {| rs_base := rs_base st; rs_shadow := set_shadow s (upd (op_add op) key (rs_base st)) (rs_shadow st) |}
           else st
    end
  end.
(* nr / nu: does register / unregister decode a bytes tag argument *)
Definition reg_step (inplace nr nu : bool) (st : regstate) (op : regop) : regstate :=
  match key_of (if op_add op then nr else nu) op with
  | None => st
  | Some key => reg_step_key inplace st op key
  end.

Definition of_kind (k : regkind) (h : list regop) : list regop := filter (fun op => kind_eqb (op_kind op) k) h.
Definition run_hist (inplace nr nu : bool) (k : regkind) (h : list regop) : regstate :=
  fold_left (reg_step inplace nr nu) (of_kind k h) {| rs_base := []; rs_shadow := [] |}.
Definition effective (inplace nr nu : bool) (k : regkind) (h : list regop) (s : N) : list text := view (run_hist inplace nr nu k h) s.

(* the specification: the registry is a map from keys to converters — a key is registered iff the last successful call
   that named it (through whichever entry point, in whichever spelling) was a register *)
Definition last_wins (norm : bool) (t : text) (b : bool) (op : regop) : bool :=
  match key_of norm op with Some k => if text_eqb t k then op_add op else b | None => b end.
Definition currently_registered (norm : bool) (k : regkind) (h : list regop) (t : text) : bool :=
  fold_left (last_wins norm t) (of_kind k h) false.
(* a call of the given kind with the same tag argument *)
Definition same_arg (add : bool) (ep : entrypoint) (op : regop) : regop :=
  {| op_add := add; op_ep := ep; op_kind := op_kind op; op_bytes := op_bytes op; op_tag := op_tag op |}.

(* does a serializer's own dict_to_class override (serpent: the tag "float", its NaN encoding) take this tag?
   If so the base class — and with it the registry — is never consulted for it. *)
Definition special_hit (special : option (text * text)) (tag : val) : bool :=
  match special with Some (ftag, _) => key_is ftag tag | None => false end.
Definition node_tag (tagkey : text) (keys vals : list val) : val :=
  match lookup tagkey keys vals with Some t => t | None => VStr (txt "<unknown>") end.
