(* C09 — instance modes of a registered class (Pyro5/server.py Daemon._getInstance,
   socketutil.SocketConnection.pyroInstances / close()).  Definitions only.

   Classes and connections are numbers.  An instance is identified by the serial number of
   the creator invocation that made it ([iid]); it carries the two bits through which its own
   behaviour can influence the daemon: its truthiness (`__bool__` / `__len__`) and the answer
   of its `__eq__` when compared with None.  What a creator invocation does (fail, return an
   object of another type, make an instance with given bits) is given by an arbitrary
   [world]: serial number of the invocation -> class -> outcome.  The daemon state is the
   table of single instances, the per-connection tables and the log of creator invocations. *)
From Coq Require Import List Arith Bool.
Import ListNotations.
From V Require Import Model.Atomic.

Inductive imode := MSingle | MSession | MPercall.

(* the test applied to the looked-up table entry to decide that a new instance is needed *)
Inductive ltest :=
| TIsNone        (* `instance is None` *)
| TNotTruthy     (* `not instance` *)
| TEqNone.       (* `instance == None` *)

Record inst := mk_inst { iid : nat; icls : nat; itruthy : bool; ieqnone : bool }.

Inductive outcome :=
| OFail                              (* constructor / creator raises *)
| OWrong                             (* creator returns an object of a different type *)
| OMade (truthy eqnone : bool).      (* an instance with these bits *)

(* how a connection ends; whatever the way, SocketConnection.close() runs on the server side *)
Inductive ending :=
| EOrderly       (* the client closes its socket; shutdown() of the server-side socket succeeds *)
| EReset         (* abortive end (TCP reset): shutdown() of the server-side socket raises ENOTCONN *)
| EStale         (* the server-side socket is already closed when close() runs: shutdown() raises *)
| EError.        (* the server closes the connection after a request it could not process *)
Inductive event :=
| Call (k c : nat)                     (* a call over connection k that reaches class c (through whichever object id) *)
| Close (k : nat) (how : ending)
| Reg (c i : nat) (force : bool)       (* Daemon.register(class c, id i, force) *)
| Unreg (i : nat).                     (* Daemon.unregister(id i) *)
Inductive obs :=
| Served (a : inst)                  (* the call was served by this instance *)
| Failed (wrongtype : bool)          (* instance creation failed; error reply *)
| Closed
| Admin.                             (* register / unregister done *)

(* what the extractor reads off the source (Gen/GenInstances.v) *)
Record shape := mk_shape { single_test : ltest;      (* test in the 'single' branch *)
                           session_test : ltest;     (* test in the 'session' branch *)
                           single_locked : bool;     (* lookup + create + store of 'single' inside one lock region *)
                           close_clears : bool;      (* SocketConnection.close() empties pyroInstances *)
                           tables_private : bool }.  (* no other code in Pyro5 touches the two instance tables *)

Definition ltest_is_none (t : ltest) : bool := match t with TIsNone => true | _ => false end.
Definition shape_ok (sh : shape) : bool :=
  ltest_is_none (single_test sh) && ltest_is_none (session_test sh) && single_locked sh && close_clears sh &&
  tables_private sh.

Definition world := nat -> nat -> outcome.

Record st := mk_st { singles : nat -> option inst;            (* Daemon._pyroInstances *)
                     sessions : nat -> nat -> option inst;    (* conn -> conn.pyroInstances *)
                     log : list (nat * outcome) }.            (* creator invocations, oldest first *)
Definition st0 : st := mk_st (fun _ => None) (fun _ _ => None) [].

Definition absent (t : ltest) (o : option inst) : bool :=
  match o with
  | None => true
  | Some a => match t with TIsNone => false | TNotTruthy => negb (itruthy a) | TEqNone => ieqnone a end
  end.

Definition set1 (f : nat -> option inst) (c : nat) (a : inst) : nat -> option inst :=
  fun x => if Nat.eqb x c then Some a else f x.
Definition set2 (f : nat -> nat -> option inst) (k c : nat) (a : inst) : nat -> nat -> option inst :=
  fun x y => if Nat.eqb x k && Nat.eqb y c then Some a else f x y.
Definition clear2 (f : nat -> nat -> option inst) (k : nat) : nat -> nat -> option inst :=
  fun x y => if Nat.eqb x k then None else f x y.

Definition obs_of (n c : nat) (o : outcome) : obs :=
  match o with
  | OMade t e => Served (mk_inst n c t e)
  | OFail => Failed false
  | OWrong => Failed true
  end.

(* createInstance: one creator invocation, logged *)
Definition create (w : world) (c : nat) (s : st) : st * obs :=
  let n := length (log s) in
  let o := w n c in
  (mk_st (singles s) (sessions s) (log s ++ [(c, o)]), obs_of n c o).

Definition store_single (c : nat) (a : inst) (s : st) : st :=
  mk_st (set1 (singles s) c a) (sessions s) (log s).
Definition store_session (k c : nat) (a : inst) (s : st) : st :=
  mk_st (singles s) (set2 (sessions s) k c a) (log s).

Definition get_single (sh : shape) (w : world) (c : nat) (s : st) : st * obs :=
  if absent (single_test sh) (singles s c) then
    let '(s1, o) := create w c s in
    match o with Served a => (store_single c a s1, o) | _ => (s1, o) end
  else match singles s c with Some a => (s, Served a) | None => (s, Failed false) end.

Definition get_session (sh : shape) (w : world) (k c : nat) (s : st) : st * obs :=
  if absent (session_test sh) (sessions s k c) then
    let '(s1, o) := create w c s in
    match o with Served a => (store_session k c a s1, o) | _ => (s1, o) end
  else match sessions s k c with Some a => (s, Served a) | None => (s, Failed false) end.

Definition get_instance (sh : shape) (w : world) (modes : nat -> imode) (k c : nat) (s : st) : st * obs :=
  match modes c with
  | MSingle => get_single sh w c s
  | MSession => get_session sh w k c s
  | MPercall => create w c s
  end.

Definition is_admin (e : event) : bool := match e with Reg _ _ _ | Unreg _ => true | _ => false end.

Definition step_ev (sh : shape) (w : world) (modes : nat -> imode) (e : event) (s : st) : st * obs :=
  match e with
  | Call k c => get_instance sh w modes k c s
  | Close k _ => (if close_clears sh then mk_st (singles s) (clear2 (sessions s) k) (log s) else s, Closed)
  | Reg _ _ _ | Unreg _ => (s, Admin)     (* instances live per (daemon, class), whatever ids the class is known by *)
  end.

Definition trace := list (event * obs).

Definition run_hist (sh : shape) (w : world) (modes : nat -> imode) (h : list event) (s : st) : st * trace :=
  fold_left (fun (acc : st * trace) e =>
               let '(s', o) := step_ev sh w modes e (fst acc) in (s', snd acc ++ [(e, o)]))
            h (s, []).

(* ---- several daemons in one process: every event names its daemon; each daemon has its own tables,
   creator log and trace (instances are per daemon, never per process) ---- *)
Definition mstate := nat -> st * trace.
Definition mstate0 : mstate := fun _ => (st0, []).
Definition mstep (sh : shape) (w : nat -> world) (modes : nat -> imode) (m : mstate) (de : nat * event) : mstate :=
  let d := fst de in
  let r := step_ev sh (w d) modes (snd de) (fst (m d)) in
  fun x => if Nat.eqb x d then (fst r, snd (m d) ++ [(snd de, snd r)]) else m x.
Definition mrun (sh : shape) (w : nat -> world) (modes : nat -> imode) (h : list (nat * event)) : mstate :=
  fold_left (mstep sh w modes) h mstate0.
Definition proj (d : nat) (h : list (nat * event)) : list event :=
  map snd (filter (fun x => Nat.eqb (fst x) d) h).

(* the (state, trace) pairs the daemon can be in after some history *)
Inductive reach (sh : shape) (w : world) (modes : nat -> imode) : st -> trace -> Prop :=
| reach0 : reach sh w modes st0 []
| reachS s tr e : reach sh w modes s tr ->
    reach sh w modes (fst (step_ev sh w modes e s)) (tr ++ [(e, snd (step_ev sh w modes e s))]).

(* ---- counting creator invocations and calls (used in the property statements) ---- *)
Definition is_made (o : outcome) : bool := match o with OMade _ _ => true | _ => false end.
Definition invocations (c : nat) (l : list (nat * outcome)) : nat :=
  length (filter (fun x => Nat.eqb (fst x) c) l).
Definition failed_invocations (c : nat) (l : list (nat * outcome)) : nat :=
  length (filter (fun x => Nat.eqb (fst x) c && negb (is_made (snd x))) l).
Definition is_call (c : nat) (x : event * obs) : bool :=
  match x with (Call _ c', Served _) | (Call _ c', Failed _) => Nat.eqb c' c | _ => false end.
Definition is_failed_call (c : nat) (x : event * obs) : bool :=
  match x with (Call _ c', Failed _) => Nat.eqb c' c | _ => false end.
Definition calls_on (c : nat) (tr : trace) : nat := length (filter (is_call c) tr).
Definition failed_calls (c : nat) (tr : trace) : nat := length (filter (is_failed_call c) tr).

(* ---- concurrent calls on 'single' classes, one shared access per step (Model/Atomic.v) ---- *)
Record regs := mk_regs { done : list (nat * obs);   (* results of the calls that have returned *)
                         pend : bool;               (* the lookup decided that an instance must be made *)
                         made : option inst }.      (* the instance just made, not yet stored *)
Definition regs0 : regs := mk_regs [] false None.

Definition p_lookup (sh : shape) (c : nat) (s : st) (r : regs) : st * regs :=
  if absent (single_test sh) (singles s c) then (s, mk_regs (done r) true None)
  else match singles s c with
       | Some a => (s, mk_regs (done r ++ [(c, Served a)]) false None)
       | None => (s, mk_regs (done r ++ [(c, Failed false)]) false None)
       end.
Definition p_create (w : world) (c : nat) (s : st) (r : regs) : st * regs :=
  let '(s1, o) := create w c s in
  match o with
  | Served a => (s1, mk_regs (done r) true (Some a))
  | _ => (s1, mk_regs (done r ++ [(c, o)]) false None)
  end.
Definition p_store (c : nat) (s : st) (r : regs) : st * regs :=
  match made r with
  | Some a => (store_single c a s, mk_regs (done r ++ [(c, Served a)]) false None)
  | None => (s, r)
  end.

(* `with lock: instance = tbl.get(clazz); if <test>: instance = create(); tbl[clazz] = instance; return instance` *)
Definition single_prog (sh : shape) (w : world) (c : nat) : prog st regs :=
  Do (p_lookup sh c) (fun r =>
    if pend r then
      Do (p_create w c) (fun r' =>
        match made r' with
        | Some _ => Do (p_store c) (fun _ => Ret)
        | None => Ret
        end)
    else Ret).

(* the same three accesses without the lock (steps that do not apply are no-ops) *)
Definition single_bare (sh : shape) (w : world) (c : nat) : list (unit_ st regs) :=
  [Bare (p_lookup sh c);
   Bare (fun s r => if pend r then p_create w c s r else (s, r));
   Bare (p_store c)].

Definition single_units (sh : shape) (w : world) (c : nat) : list (unit_ st regs) :=
  if single_locked sh then [Locked (single_prog sh w c)] else single_bare sh w c.

Definition conc_threads (sh : shape) (w : world) (calls : list (list nat)) : nat -> thread st regs :=
  fun i => mk_thread None (flat_map (single_units sh w) (nth i calls [])) regs0.
Definition conc_init (sh : shape) (w : world) (s0 : st) (calls : list (list nat)) : config st regs :=
  mk_config s0 None (conc_threads sh w calls).

(* a result observed anywhere: in the sequential history or by a concurrent caller *)
Definition served_in (tr : trace) (cf : config st regs) (c : nat) (a : inst) : Prop :=
  (exists k, In (Call k c, Served a) tr) \/ (exists i, In (c, Served a) (done (tregs (threads cf i)))).

(* ---- worlds given by a finite script (harness, witnesses) ---- *)
Definition script_world (l : list outcome) (dflt : outcome) : world := fun n _ => nth n l dflt.

(* ---- named shapes ---- *)
Definition shape_fixed : shape := mk_shape TIsNone TIsNone true true true.
Definition shape_falsy : shape := mk_shape TNotTruthy TNotTruthy true true true.     (* `if not instance:` *)
Definition shape_eqnone : shape := mk_shape TEqNone TEqNone true true true.          (* `if instance == None:` *)
Definition shape_unlocked : shape := mk_shape TIsNone TIsNone false true true.       (* no create_single_instance_lock *)
