(* C08 — the handshake gate of a Pyro5 daemon, as a per-connection machine.

   Anchors: Pyro5/server.py Daemon._handshake / validateHandshake / handleRequest,
   svr_threads.py ClientConnectionJob.__call__ / handleConnection / denyConnection,
   SocketServer_Threadpool.events, svr_multiplex.py SocketServer_Multiplex.events /
   _handleConnection / handleRequest / loop.

   A connection is NotHandshaken | Accepted | Closed | Abandoned.  Input: a list of events,
   each "on connection c this happens": a complete wire message arrives (given by its
   *classification*: type, well-formed?, serializer known?, what the payload decodes to,
   what the validator / the invoked method would do), or the peer goes away (EOF, or a
   message cut short and then a disconnect), or the peer stays silent for longer than
   COMMTIMEOUT.  A connection may have been *denied* by the thread-pool server (no free
   worker when it arrived).  Output: per event a list of
   Reply c kind seq serializer | Exec c target token | SockClosed c.

   Abandoned = the server neither reads from nor closes the socket any more: the outcome
   when validateHandshake raises a BaseException-only class (SystemExit, KeyboardInterrupt):
   on the thread server the worker thread dies with the socket open; on the multiplex server
   the exception ends the daemon's request loop, so EVERY other connection that was still open is abandoned
   (connections the daemon had already closed stay closed).

   The set of registered objects is part of the state: the application registers and
   unregisters objects (by id, by object, or a weakly registered object is garbage collected)
   in between the connection events, and "is the requested object known" is evaluated against
   the registry as it is when the CONNECT / the INVOKE is processed.  Object ids are numbers
   (the harness numbers the id strings); id 0 is the daemon's own Pyro.Daemon object, which is
   always registered.

   The structural facts of the source the machine depends on are parameters (record [cfg]);
   tools/gen/gen_handshake.py regenerates their values from the source on every run
   (Gen/GenHandshake.v).  Definitions only — proofs are in Proofs/HandshakeGate.v. *)
From Coq Require Import List NArith Arith Bool.
Import ListNotations.

Inductive servertype := Thread | Multiplex.

Record cfg := {
  c_connect : N;                 (* protocol.MSG_CONNECT *)
  c_invoke : N;                  (* protocol.MSG_INVOKE *)
  c_ping : N;                    (* protocol.MSG_PING *)
  c_first_types : list N;        (* accepted types of the recv_stub call in _handshake *)
  c_later_types : list N;        (* accepted types of the recv_stub call in handleRequest *)
  c_gate : servertype -> bool;   (* request loop / selector registration only under a truthy handshake result *)
  c_ok_only : bool;              (* _handshake returns truthy only when it answered CONNECTOK *)
  c_marshal : N;                 (* serializer id used before the request's own is known *)
  c_client_uses_reply_ser : bool; (* the proxy decodes the handshake answer with the serializer named in the ANSWER's header *)
  (* quirk switches = behaviour of the unrepaired code (findings of C08) *)
  q_silent_unknown_ser : bool;   (* CONNECT with an unknown serializer id: closed without CONNECTFAIL (fixed) *)
  q_silent_validator_cce : bool; (* validator raises ConnectionClosedError: closed without CONNECTFAIL (fixed) *)
  q_abort_unanswered : bool      (* validator raises a BaseException-only class: no answer, socket not closed (open) *)
}.

(* ---- classification of one wire message ---- *)
Inductive wf := WfOk | WfBadHeader | WfBadBody.
(* WfBadHeader: not PYRO / wrong version / wrong magic / announced size > max (ProtocolError
   before the type is looked at).  WfBadBody: header fine, but annotations do not tile,
   non-ASCII annotation id, or bad zlib data (exception out of add_payload). *)

(* what the daemon's validateHandshake does when called for this connection *)
Inductive vb :=
| VAccept (answer_serialisable : bool)   (* returns a value (any value, truthy or not) *)
| VRaise (conn_closed_class : bool)      (* raises an Exception; flag: it is a ConnectionClosedError *)
| VAbort (keyboard_interrupt : bool).    (* raises a BaseException that is not an Exception; flag: it is a
                                            KeyboardInterrupt, which the multiplex server's loop catches to stop *)

Inductive objref := ObjId (n : N) | ObjBad.   (* ObjBad: unhashable id -> TypeError on lookup *)

(* what the payload is when read as a handshake request *)
Inductive hs_payload :=
| HsUndecodable            (* serializer.loads raises *)
| HsNoHandshakeKey         (* data["handshake"] raises (not a dict, key missing) *)
| HsNoObjectKey            (* data["handshake"] exists, data["object"] raises *)
| HsFull (o : objref).

(* what the payload is when read as a call *)
Inductive decfail := DfKeep | DfCloseReply | DfCloseSilent.
(* loadsCall raises: an ordinary exception (error reply, connection kept) / SerializeError or
   SecurityError (error reply, closed) / another CommunicationError (no reply, closed) *)
Inductive meth := MUnknown | MReturns | MRaises.
(* the registered object a call addresses: an application object, or the daemon's own
   built-in Pyro.Daemon object (ping, registered, info, get_metadata) *)
Inductive target := TUser | TDaemon.
(* a call names an object id (None: an unhashable / non-id value), and says what the method would do
   if that id is registered when the call is processed *)
Inductive call_payload :=
| CpFail (d : decfail)
| CpCall (o : option N) (t : target) (m : meth) (tok : N).

Record msg := {
  m_type : N; m_wf : wf; m_ser : N; m_ser_known : bool; m_seq : N; m_oneway : bool;
  m_hs : hs_payload; m_call : call_payload; m_val : vb }.

Inductive input :=
| InMsg (m : msg)     (* a complete message arrives *)
| InPeerGone          (* EOF / message cut short then disconnect (ConnectionClosedError while receiving) *)
| InSilence.          (* nothing arrives within COMMTIMEOUT (TimeoutError while receiving) *)

(* e_denied: the thread-pool server had no free worker when this connection arrived (only
   looked at for the connection's first event, only on the thread server) *)
Record cevent := { e_conn : nat; e_in : input; e_denied : bool }.

(* what the application does with the daemon's registry in between *)
Inductive appev :=
| Register (id : N)             (* daemon.register(obj, id) (also weak=True) *)
| UnregisterById (id : N)       (* daemon.unregister("id") *)
| UnregisterByObject (id : N)   (* daemon.unregister(obj) for the object registered under id *)
| GcWeak (id : N).              (* the weakly registered object was collected: its finalizer unregisters the id *)

Inductive event := EvConn (ce : cevent) | EvApp (a : appev).

Definition registry := N -> bool.
Definition daemon_oid : N := 0%N.
Definition reg_init : registry := fun n => (n =? daemon_oid)%N.
Definition reg_set (r : registry) (id : N) (b : bool) : registry :=
  fun n => if (n =? id)%N then b else r n.
(* the daemon's own object cannot be unregistered (unregister returns early for DAEMON_NAME) *)
Definition reg_remove (r : registry) (id : N) : registry :=
  if (id =? daemon_oid)%N then r else reg_set r id false.
Definition app_reg (r : registry) (a : appev) : registry :=
  match a with
  | Register id => reg_set r id true
  | UnregisterById id | UnregisterByObject id | GcWeak id => reg_remove r id
  end.
Definition obj_registered (r : registry) (o : objref) : bool :=
  match o with ObjId n => r n | ObjBad => false end.

(* ---- outputs ---- *)
Inductive reason := RsnValidator | RsnUnknownObject | RsnDenied | RsnOther.
Inductive rkind := RConnectOk | RConnectFail (r : reason) | RPong | RResult | RError.
Inductive out :=
| Reply (c : nat) (k : rkind) (seq : N) (ser : N)
| Exec (c : nat) (t : target) (tok : N)
| SockClosed (c : nat).

Inductive cstate := NotHandshaken | Accepted | Closed | Abandoned.

Definition memN (x : N) (l : list N) : bool := existsb (N.eqb x) l.

Inductive hs_outcome := HsAccept | HsRefuse | HsAbort (kbd : bool).

(* is the validator called for this first message *)
Definition validator_reached (g : cfg) (m : msg) : bool :=
  match m_wf m with WfOk => true | _ => false end &&
  memN (m_type m) (c_first_types g) && m_ser_known m &&
  match m_hs m with HsNoObjectKey | HsFull _ => true | _ => false end.

(* ---- the first message of a connection: Daemon._handshake ----
   result: the answer sent (kind, seq, serializer id) if any, and the outcome *)
Definition hs_result (g : cfg) (reg : registry) (m : msg) : option (rkind * N * N) * hs_outcome :=
  let fail_early := (Some (RConnectFail RsnOther, 0%N, c_marshal g), HsRefuse) in
  let fail r := (Some (RConnectFail r, m_seq m, m_ser m), HsRefuse) in
  let silent := (@None (rkind * N * N), HsRefuse) in
  let validator_raised cc := if cc && q_silent_validator_cce g then silent else fail RsnValidator in
  let validator_aborted kbd := if q_abort_unanswered g then (@None (rkind * N * N), HsAbort kbd) else fail RsnValidator in
  match m_wf m with
  | WfBadHeader => fail_early
  | _ =>
    if negb (memN (m_type m) (c_first_types g)) then fail_early
    else match m_wf m with
    | WfBadBody => fail_early
    | _ =>
      if negb (m_ser_known m) then
        (if q_silent_unknown_ser g then silent
         else (Some (RConnectFail RsnOther, m_seq m, c_marshal g), HsRefuse))
      else match m_hs m with
      | HsUndecodable | HsNoHandshakeKey => fail RsnOther
      | HsNoObjectKey =>
          match m_val m with
          | VRaise cc => validator_raised cc | VAbort k => validator_aborted k | VAccept _ => fail RsnOther
          end
      | HsFull o =>
          match m_val m with
          | VRaise cc => validator_raised cc
          | VAbort k => validator_aborted k
          | VAccept s =>
              match o with
              | ObjBad => fail RsnOther
              | ObjId n =>
                  if reg n then (if s then (Some (RConnectOk, m_seq m, m_ser m), HsAccept) else fail RsnOther)
                  else fail RsnUnknownObject
              end
          end
      end
    end
  end.

(* the same call with denied_reason set (SocketServer_Threadpool.events -> denyConnection):
   the message is still read and framed first; a well-framed message of an accepted type is
   refused with the reason, through the marshal serializer, under the request's sequence number *)
Definition hs_denied (g : cfg) (m : msg) : option (rkind * N * N) :=
  let fail_early := Some (RConnectFail RsnOther, 0%N, c_marshal g) in
  match m_wf m with
  | WfBadHeader => fail_early
  | _ =>
    if negb (memN (m_type m) (c_first_types g)) then fail_early
    else match m_wf m with
    | WfBadBody => fail_early
    | _ => Some (RConnectFail RsnDenied, m_seq m, c_marshal g)
    end
  end.

Definition reply_outs (c : nat) (r : option (rkind * N * N)) : list out :=
  match r with Some (k, s, i) => [Reply c k s i] | None => [] end.

(* the transport server enters the request loop / registers the connection only if the gate holds *)
Definition gated (g : cfg) (sty : servertype) : bool := c_gate g sty && c_ok_only g.

Definition denied_applies (sty : servertype) (e : cevent) : bool :=
  match sty with Thread => e_denied e | Multiplex => false end.

(* result of the first event: new state of the connection, outputs, and whether the daemon's
   request loop ended (multiplex server, BaseException out of the validator) *)
Definition step_first (g : cfg) (sty : servertype) (reg : registry) (e : cevent) : cstate * list out * bool :=
  let c := e_conn e in
  let refused (r : option (rkind * N * N)) :=
    if gated g sty then (Closed, reply_outs c r ++ [SockClosed c], false)
    else (Accepted, reply_outs c r, false) in
  if denied_applies sty e then
    (* denyConnection: _handshake(denied_reason=...), then the socket is closed, whatever it returned *)
    match e_in e with
    | InMsg m => (Closed, reply_outs c (hs_denied g m) ++ [SockClosed c], false)
    | InPeerGone => (Closed, [SockClosed c], false)
    | InSilence => (Closed, [Reply c (RConnectFail RsnOther) 0%N (c_marshal g); SockClosed c], false)
    end
  else
    match e_in e with
    | InPeerGone => refused None
    | InSilence => refused (Some (RConnectFail RsnOther, 0%N, c_marshal g))
    | InMsg m =>
        match hs_result g reg m with
        | (r, HsAccept) => (Accepted, reply_outs c r, false)
        | (r, HsRefuse) => refused r
        | (_, HsAbort kbd) =>
            (* thread server: the exception kills the worker thread, which keeps the job and its socket.
               multiplex server: it leaves events(); a KeyboardInterrupt is caught by loop() ("stopping on break
               signal"), the connection object is dropped and its destructor closes the socket; any other class
               leaves requestLoop towards the embedding program with the connection still referenced *)
            match sty with
            | Thread => (Abandoned, [], false)
            | Multiplex => if kbd then (Closed, [SockClosed c], true) else (Abandoned, [], true)
            end
        end
    end.

(* ---- every later event: Daemon.handleRequest inside the transport server's loop ---- *)
Definition step_later_msg (g : cfg) (reg : registry) (c : nat) (m : msg) : cstate * list out :=
  let closed := (Closed, [SockClosed c]) in
  let rep k := if m_oneway m then [] else [Reply c k (m_seq m) (m_ser m)] in
  match m_wf m with
  | WfBadHeader => closed
  | _ =>
    if negb (memN (m_type m) (c_later_types g)) then closed
    else match m_wf m with
    | WfBadBody => closed
    | _ =>
      if (m_type m =? c_ping g)%N then (Accepted, [Reply c RPong (m_seq m) (m_ser m)])
      else if negb (m_ser_known m) then (if m_oneway m then (Accepted, []) else closed)
      else match m_call m with
      | CpFail DfKeep => (Accepted, rep RError)
      | CpFail DfCloseReply => (Closed, rep RError ++ [SockClosed c])
      | CpFail DfCloseSilent => closed
      | CpCall o t me tok =>
          if match o with Some n => reg n | None => false end then
            match me with
            | MUnknown => (Accepted, rep RError)
            | MReturns => (Accepted, Exec c t tok :: rep RResult)
            | MRaises => (Accepted, Exec c t tok :: rep RError)
            end
          else (Accepted, rep RError)       (* unknown object *)
      end
    end
  end.

Definition step_later (g : cfg) (sty : servertype) (reg : registry) (c : nat) (i : input) : cstate * list out :=
  match i with
  | InMsg m => step_later_msg g reg c m
  | InPeerGone => (Closed, [SockClosed c])
  | InSilence =>
      (* thread server: the worker's blocking read times out; multiplex server: an idle registered
         connection is simply not selected *)
      match sty with Thread => (Closed, [SockClosed c]) | Multiplex => (Accepted, []) end
  end.

(* ---- all connections ---- *)
Definition conns := nat -> cstate.
Definition init : conns := fun _ => NotHandshaken.
Definition upd (st : conns) (c : nat) (s : cstate) : conns :=
  fun c' => if Nat.eqb c' c then s else st c'.
(* the daemon's request loop has ended: what was open is no longer served (nor closed); what the daemon had already
   closed stays closed — its peer sees EOF whether or not the loop is alive *)
Definition abandon_open (st : conns) : conns :=
  fun c => match st c with Closed => Closed | _ => Abandoned end.

Definition step_conn (g : cfg) (sty : servertype) (reg : registry) (st : conns) (e : cevent) : conns * list out :=
  let c := e_conn e in
  match st c with
  | Closed | Abandoned => (st, [])
  | NotHandshaken =>
      let '(s', o, kill) := step_first g sty reg e in
      (upd (if kill then abandon_open st else st) c s', o)
  | Accepted => let '(s', o) := step_later g sty reg c (e_in e) in (upd st c s', o)
  end.

(* the whole daemon: connections and registry *)
Record state := { s_conns : conns; s_reg : registry }.
Definition init_state : state := {| s_conns := init; s_reg := reg_init |}.

Definition step (g : cfg) (sty : servertype) (s : state) (e : event) : state * list out :=
  match e with
  | EvConn ce =>
      ({| s_conns := fst (step_conn g sty (s_reg s) (s_conns s) ce); s_reg := s_reg s |},
       snd (step_conn g sty (s_reg s) (s_conns s) ce))
  | EvApp a => ({| s_conns := s_conns s; s_reg := app_reg (s_reg s) a |}, [])
  end.

Fixpoint final (g : cfg) (sty : servertype) (st : state) (evs : list event) : state :=
  match evs with
  | [] => st
  | e :: r => final g sty (fst (step g sty st e)) r
  end.

Fixpoint run (g : cfg) (sty : servertype) (st : state) (evs : list event) : list (list out) :=
  match evs with
  | [] => []
  | e :: r => snd (step g sty st e) :: run g sty (fst (step g sty st e)) r
  end.

(* the whole output trace of an event list, from the initial state *)
Definition trace (g : cfg) (sty : servertype) (evs : list event) : list out :=
  concat (run g sty init_state evs).

(* what event [e] produces after the history [pre] *)
Definition outs_of (g : cfg) (sty : servertype) (pre : list event) (e : event) : list out :=
  snd (step g sty (final g sty init_state pre) e).

(* the registry after a history, and — independently of the machine — what the application's own
   register / unregister calls say it should be *)
Definition reg_after (g : cfg) (sty : servertype) (pre : list event) : registry :=
  s_reg (final g sty init_state pre).
Fixpoint reg_of_history (r : registry) (evs : list event) : registry :=
  match evs with
  | [] => r
  | EvApp a :: rest => reg_of_history (app_reg r a) rest
  | EvConn _ :: rest => reg_of_history r rest
  end.

(* ---- vocabulary of the theorems ---- *)
(* the property's notion of a completed handshake, stated on the input alone *)
Definition is_accepted_msg (g : cfg) (reg : registry) (m : msg) : bool :=
  (m_type m =? c_connect g)%N &&
  match m_wf m with WfOk => true | _ => false end &&
  m_ser_known m &&
  match m_hs m with HsFull o => obj_registered reg o | _ => false end &&
  match m_val m with VAccept true => true | _ => false end.

(* [reg]: the registry at the moment the event is processed *)
Definition is_accepted_connect (g : cfg) (sty : servertype) (reg : registry) (e : cevent) : bool :=
  negb (denied_applies sty e) &&
  match e_in e with InMsg m => is_accepted_msg g reg m | _ => false end.

(* the first event makes the validator raise a BaseException-only class (and the code does not contain it) *)
Definition validator_aborts (g : cfg) (sty : servertype) (e : cevent) : bool :=
  negb (denied_applies sty e) && q_abort_unanswered g &&
  match e_in e with
  | InMsg m => validator_reached g m && match m_val m with VAbort _ => true | _ => false end
  | _ => false
  end.

Definition peer_gone (e : cevent) : bool := match e_in e with InPeerGone => true | _ => false end.

(* connection c is new and the daemon is serving *)
Definition fresh (g : cfg) (sty : servertype) (pre : list event) (c : nat) : Prop :=
  s_conns (final g sty init_state pre) c = NotHandshaken.

(* the connection an event belongs to (application events belong to none) *)
Definition ev_conn (e : event) : option nat :=
  match e with EvConn ce => Some (e_conn ce) | EvApp _ => None end.

Fixpoint list_eqbN (a b : list N) : bool :=
  match a, b with
  | [], [] => true
  | x :: a', y :: b' => (x =? y)%N && list_eqbN a' b'
  | _, _ => false
  end.

(* the structural facts the theorems need from the source *)
Definition cfg_ok (g : cfg) : bool :=
  list_eqbN (c_first_types g) [c_connect g] &&
  list_eqbN (c_later_types g) [c_invoke g; c_ping g] &&
  negb (c_invoke g =? c_ping g)%N &&
  c_gate g Thread && c_gate g Multiplex && c_ok_only g && c_client_uses_reply_ser g.

(* ---- the other end: Proxy.__pyroCreateConnection reading the daemon's answer to its CONNECT ----
   The daemon answers an early refusal (no free worker, unaccepted serializer id, malformed or missing first
   message) through its fallback serializer, every other answer through the serializer of the request; so the
   answer's serializer may differ from the one the proxy is configured with.  A payload read with another
   serializer than the one it was written with yields some unrelated decoding error: the reason is lost. *)
Inductive client_outcome :=
| CConnected                 (* CONNECTOK understood: the proxy is connected *)
| CRejected (r : reason)     (* CommunicationError "connection to ... rejected: <reason>" with the daemon's reason *)
| CNoAnswer                  (* closed without an answer: CommunicationError "cannot connect ..." *)
| CGarbled                   (* the answer's payload was read with the wrong serializer *)
| CProtocol.                 (* an answer that is neither CONNECTOK nor CONNECTFAIL: ProtocolError *)

Definition client_reads (g : cfg) (client_ser : N) (answer : option (rkind * N * N)) : client_outcome :=
  match answer with
  | None => CNoAnswer
  | Some (k, _, rser) =>
      let used := if c_client_uses_reply_ser g then rser else client_ser in
      match k with
      | RConnectOk => if (used =? rser)%N then CConnected else CGarbled
      | RConnectFail r => if (used =? rser)%N then CRejected r else CGarbled
      | _ => CProtocol
      end
  end.

(* the first answer addressed to connection c in a list of outputs *)
Fixpoint answer_of (c : nat) (os : list out) : option (rkind * N * N) :=
  match os with
  | [] => None
  | Reply c' k s i :: r => if Nat.eqb c' c then Some (k, s, i) else answer_of c r
  | _ :: r => answer_of c r
  end.
