(* C08 — the handshake gate of a Pyro5 daemon, as a per-connection machine.

   Anchors: Pyro5/server.py Daemon._handshake / validateHandshake / handleRequest,
   svr_threads.py ClientConnectionJob.__call__ / handleConnection,
   svr_multiplex.py SocketServer_Multiplex.events / _handleConnection / handleRequest.

   A connection is NotHandshaken | Accepted | Closed.  Input: a list of events, each
   "connection c delivers message m", where m is the *classification* of a wire message
   (type, well-formed?, serializer known?, what the payload decodes to, what the
   validator / the invoked method would do).  Output: per event a list of
   Reply c kind seq serializer | Exec c token | SockClosed c.

   The structural facts of the source the machine depends on (which message types the
   two recv_stub calls accept, whether the request loop / the selector registration is
   guarded by the handshake result, whether _handshake is truthy only for CONNECTOK) are
   parameters (record [cfg]); tools/gen/gen_handshake.py regenerates their values from
   the source on every run (Gen/GenHandshake.v).  Definitions only — proofs are in
   Proofs/HandshakeGate.v. *)
From Coq Require Import List NArith Arith Bool.
Import ListNotations.

Inductive servertype := Thread | Multiplex.

Record cfg := {
  c_connect : N;                 (* protocol.MSG_CONNECT *)
  c_invoke : N;                  (* protocol.MSG_INVOKE *)
  c_ping : N;                    (* protocol.MSG_PING *)
  c_first_types : list N;        (* accepted types of the recv_stub call in _handshake *)
  c_later_types : list N;        (* accepted types of the recv_stub call in handleRequest *)
  c_gate : servertype -> bool;   (* request loop / selector registration only under a truthy handshake result *)
  c_ok_only : bool;              (* _handshake returns truthy only when it answered CONNECTOK *)
  c_marshal : N;                 (* serializer id used before the request's own is known *)
  (* quirk switches = behaviour of the unrepaired code (findings of C08) *)
  q_silent_unknown_ser : bool;   (* CONNECT with an unknown serializer id: closed without CONNECTFAIL *)
  q_silent_validator_cce : bool  (* validator raises ConnectionClosedError: closed without CONNECTFAIL *)
}.

(* ---- classification of one wire message ---- *)
Inductive wf := WfOk | WfBadHeader | WfBadBody.
(* WfBadHeader: not PYRO / wrong version / wrong magic / announced size > max (ProtocolError
   before the type is looked at).  WfBadBody: header fine, but annotations do not tile,
   non-ASCII annotation id, or bad zlib data (exception out of add_payload). *)

(* what the daemon's validateHandshake does when called for this connection *)
Inductive vb :=
| VAccept (answer_serialisable : bool)   (* returns a value (any value, truthy or not) *)
| VRaise (conn_closed_class : bool).     (* raises an Exception; flag: it is a ConnectionClosedError *)

Inductive objref := ObjKnown | ObjUnknown | ObjBad.   (* ObjBad: unhashable id -> TypeError on lookup *)

(* what the payload is when read as a handshake request *)
Inductive hs_payload :=
| HsUndecodable            (* serializer.loads raises *)
| HsNoHandshakeKey         (* data["handshake"] raises (not a dict, key missing) *)
| HsNoObjectKey            (* data["handshake"] exists, data["object"] raises *)
| HsFull (o : objref).

(* what the payload is when read as a call *)
Inductive decfail := DfKeep | DfCloseReply | DfCloseSilent.
(* loadsCall raises: an ordinary exception (error reply, connection kept) / SerializeError or
   SecurityError (error reply, closed) / another CommunicationError (no reply, closed) *)
Inductive meth := MUnknown | MReturns | MRaises.
Inductive call_payload :=
| CpFail (d : decfail)
| CpCall (obj_known : bool) (m : meth) (tok : N).

Record msg := {
  m_type : N; m_wf : wf; m_ser : N; m_ser_known : bool; m_seq : N; m_oneway : bool;
  m_hs : hs_payload; m_call : call_payload; m_val : vb }.

Record event := { e_conn : nat; e_msg : msg }.

(* ---- outputs ---- *)
Inductive reason := RsnValidator | RsnUnknownObject | RsnOther.
Inductive rkind := RConnectOk | RConnectFail (r : reason) | RPong | RResult | RError.
Inductive out :=
| Reply (c : nat) (k : rkind) (seq : N) (ser : N)
| Exec (c : nat) (tok : N)
| SockClosed (c : nat).

Inductive cstate := NotHandshaken | Accepted | Closed.

Definition memN (x : N) (l : list N) : bool := existsb (N.eqb x) l.

(* ---- the first message of a connection: Daemon._handshake ----
   result: the answer sent (kind, seq, serializer id) if any, and whether the handshake was accepted *)
Definition hs_result (g : cfg) (m : msg) : option (rkind * N * N) * bool :=
  let fail_early := (Some (RConnectFail RsnOther, 0%N, c_marshal g), false) in
  let fail r := (Some (RConnectFail r, m_seq m, m_ser m), false) in
  let silent := (@None (rkind * N * N), false) in
  let validator_raised cc := if cc && q_silent_validator_cce g then silent else fail RsnValidator in
  match m_wf m with
  | WfBadHeader => fail_early
  | _ =>
    if negb (memN (m_type m) (c_first_types g)) then fail_early
    else match m_wf m with
    | WfBadBody => fail_early
    | _ =>
      if negb (m_ser_known m) then
        (if q_silent_unknown_ser g then silent
         else (Some (RConnectFail RsnOther, m_seq m, c_marshal g), false))
      else match m_hs m with
      | HsUndecodable | HsNoHandshakeKey => fail RsnOther
      | HsNoObjectKey =>
          match m_val m with VRaise cc => validator_raised cc | VAccept _ => fail RsnOther end
      | HsFull o =>
          match m_val m with
          | VRaise cc => validator_raised cc
          | VAccept s =>
              match o with
              | ObjUnknown => fail RsnUnknownObject
              | ObjBad => fail RsnOther
              | ObjKnown => if s then (Some (RConnectOk, m_seq m, m_ser m), true) else fail RsnOther
              end
          end
      end
    end
  end.

Definition reply_outs (c : nat) (r : option (rkind * N * N)) : list out :=
  match r with Some (k, s, i) => [Reply c k s i] | None => [] end.

(* the transport server enters the request loop / registers the connection only if the gate holds *)
Definition gated (g : cfg) (sty : servertype) : bool := c_gate g sty && c_ok_only g.

Definition step_first (g : cfg) (sty : servertype) (c : nat) (m : msg) : cstate * list out :=
  let '(r, acc) := hs_result g m in
  if acc then (Accepted, reply_outs c r)
  else if gated g sty then (Closed, reply_outs c r ++ [SockClosed c])
  else (Accepted, reply_outs c r).

(* ---- every later message: Daemon.handleRequest inside the transport server's loop ---- *)
Definition step_later (g : cfg) (c : nat) (m : msg) : cstate * list out :=
  let closed := (Closed, [SockClosed c]) in
  let rep k := if m_oneway m then [] else [Reply c k (m_seq m) (m_ser m)] in
  match m_wf m with
  | WfBadHeader => closed
  | _ =>
    if negb (memN (m_type m) (c_later_types g)) then closed
    else match m_wf m with
    | WfBadBody => closed
    | _ =>
      if (m_type m =? c_ping g)%N then (Accepted, [Reply c RPong (m_seq m) (m_ser m)])
      else if negb (m_ser_known m) then (if m_oneway m then (Accepted, []) else closed)
      else match m_call m with
      | CpFail DfKeep => (Accepted, rep RError)
      | CpFail DfCloseReply => (Closed, rep RError ++ [SockClosed c])
      | CpFail DfCloseSilent => closed
      | CpCall false _ _ => (Accepted, rep RError)
      | CpCall true MUnknown _ => (Accepted, rep RError)
      | CpCall true MReturns tok => (Accepted, Exec c tok :: rep RResult)
      | CpCall true MRaises tok => (Accepted, Exec c tok :: rep RError)
      end
    end
  end.

(* ---- all connections ---- *)
Definition conns := nat -> cstate.
Definition init : conns := fun _ => NotHandshaken.
Definition upd (st : conns) (c : nat) (s : cstate) : conns :=
  fun c' => if Nat.eqb c' c then s else st c'.

Definition step (g : cfg) (sty : servertype) (st : conns) (e : event) : conns * list out :=
  let c := e_conn e in
  match st c with
  | Closed => (st, [])
  | NotHandshaken => let '(s', o) := step_first g sty c (e_msg e) in (upd st c s', o)
  | Accepted => let '(s', o) := step_later g c (e_msg e) in (upd st c s', o)
  end.

Fixpoint final (g : cfg) (sty : servertype) (st : conns) (evs : list event) : conns :=
  match evs with
  | [] => st
  | e :: r => final g sty (fst (step g sty st e)) r
  end.

Fixpoint run (g : cfg) (sty : servertype) (st : conns) (evs : list event) : list (list out) :=
  match evs with
  | [] => []
  | e :: r => snd (step g sty st e) :: run g sty (fst (step g sty st e)) r
  end.

(* the whole output trace of an event list, from the initial state *)
Definition trace (g : cfg) (sty : servertype) (evs : list event) : list out :=
  concat (run g sty init evs).

(* what event [e] produces after the history [pre] *)
Definition outs_of (g : cfg) (sty : servertype) (pre : list event) (e : event) : list out :=
  snd (step g sty (final g sty init pre) e).

(* ---- vocabulary of the theorems ---- *)
(* the property's notion of a completed handshake, stated on the input alone *)
Definition is_accepted_connect (g : cfg) (m : msg) : bool :=
  (m_type m =? c_connect g)%N &&
  match m_wf m with WfOk => true | _ => false end &&
  m_ser_known m &&
  match m_hs m with HsFull ObjKnown => true | _ => false end &&
  match m_val m with VAccept true => true | _ => false end.

Fixpoint list_eqbN (a b : list N) : bool :=
  match a, b with
  | [], [] => true
  | x :: a', y :: b' => (x =? y)%N && list_eqbN a' b'
  | _, _ => false
  end.

(* the structural facts the theorems need from the source *)
Definition cfg_ok (g : cfg) : bool :=
  list_eqbN (c_first_types g) [c_connect g] &&
  list_eqbN (c_later_types g) [c_invoke g; c_ping g] &&
  negb (c_invoke g =? c_ping g)%N &&
  c_gate g Thread && c_gate g Multiplex && c_ok_only g.

Definition is_reply_or_exec (o : out) : bool :=
  match o with Reply _ _ _ _ => true | Exec _ _ => true | SockClosed _ => false end.
