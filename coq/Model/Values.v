(* C01 — the value domain that travels over the wire.  Definitions only.
   Text is a list of code points, bytes a list of N < 256, floats are IEEE-754 binary64 bit
   patterns with all NaNs identified, integers are unbounded Z.  Sets, frozensets and dicts
   carry their elements in the iteration order of the Python object (the harness compares
   them without order).  VUuid / VDecimal carry str(x); VDate carries toordinal() and
   isoformat(); VDateTime (a naive datetime.datetime) carries its microseconds since 0001-01-01 and
   isoformat() (all data of the value, computed by Python).  VExt is a
   msgpack.ExtType(code, data) object whose data encodes [payload] — it only ever appears
   as something a method *receives* when a decode path lacks its ext_hook. *)
From Coq Require Import List NArith ZArith Bool.
Import ListNotations.

Definition text := list N.

Inductive fl := FNaN | FBits (bits : N).

Inductive val :=
| VNone
| VBool (b : bool)
| VInt (z : Z)
| VFloat (f : fl)
| VStr (s : text)
| VBytes (b : list N)
| VList (l : list val)
| VTuple (l : list val)
| VSet (l : list val)
| VFrozenSet (l : list val)
| VDict (d : list (val * val))
| VComplex (re im : fl)
| VUuid (s : text)
| VDecimal (s : text)
| VDate (ord : Z) (iso : text)
| VDateTime (key : Z) (iso : text)
| VExt (code : N) (payload : val).

Fixpoint text_eqb (a b : text) : bool :=
  match a, b with
  | [], [] => true
  | x :: a', y :: b' => N.eqb x y && text_eqb a' b'
  | _, _ => false
  end.

Definition is_nan (f : fl) : bool := match f with FNaN => true | FBits _ => false end.

(* "__class__", the reserved dict key *)
Definition t_class : text := [95; 95; 99; 108; 97; 115; 115; 95; 95]%N.
Definition t_float : text := [102; 108; 111; 97; 116]%N.
Definition t_value : text := [118; 97; 108; 117; 101]%N.
Definition t_nan : text := [110; 97; 110]%N.
Definition t_data : text := [100; 97; 116; 97]%N.
Definition t_encoding : text := [101; 110; 99; 111; 100; 105; 110; 103]%N.
Definition t_base64 : text := [98; 97; 115; 101; 54; 52]%N.

Definition is_class_key (k : val) : bool :=
  match k with VStr s => text_eqb s t_class | _ => false end.
Definition has_class (d : list (val * val)) : bool := existsb (fun kv => is_class_key (fst kv)) d.

(* can the Python object be a set element / dict key (after a mapping changed it)? *)
Fixpoint hashable (v : val) : bool :=
  match v with
  | VList _ | VSet _ | VDict _ | VExt _ _ => false
  | VTuple l => forallb hashable l
  | _ => true
  end.

(* base64.b64encode *)
Local Open Scope N_scope.
Definition b64char (n : N) : N :=
  if n <? 26 then 65 + n else if n <? 52 then 97 + (n - 26) else if n <? 62 then 48 + (n - 52)
  else if n =? 62 then 43 else 47.
Fixpoint b64 (b : list N) : text :=
  match b with
  | [] => []
  | [x] => [b64char (x / 4); b64char ((x mod 4) * 16); 61; 61]
  | [x; y] => [b64char (x / 4); b64char ((x mod 4) * 16 + y / 16); b64char ((y mod 16) * 4); 61]
  | x :: y :: z :: r =>
      b64char (x / 4) :: b64char ((x mod 4) * 16 + y / 16) :: b64char ((y mod 16) * 4 + z / 64)
      :: b64char (z mod 64) :: b64 r
  end.
Local Close Scope N_scope.

(* three-valued status of a (sub)value under one layer of a serializer *)
Inductive st := SOk | SRefused | SOutside.
Definition st_and (a b : st) : st :=
  match a, b with
  | SOutside, _ | _, SOutside => SOutside
  | SRefused, _ | _, SRefused => SRefused
  | SOk, SOk => SOk
  end.
Definition st_all (l : list st) : st := fold_right st_and SOk l.
Definition guard (b : bool) : st := if b then SOk else SRefused.

(* The lossless core of the property text: None, booleans, any integer, any float (inf, nan,
   -0.0 included), text, lists and string-keyed dicts (key other than "__class__"), nested to
   any depth.  (Valid unicode: code points are what Python's str holds; lone surrogates are
   excluded by the harness generator because no serializer can encode them.) *)
Fixpoint core (v : val) : bool :=
  match v with
  | VNone | VBool _ | VInt _ | VFloat _ | VStr _ => true
  | VList l => forallb core l
  | VDict d => forallb (fun kv => match fst kv with
                                  | VStr s => negb (text_eqb s t_class) && core (snd kv)
                                  | _ => false
                                  end) d
  | _ => false
  end.
