(* C05 — types of the tables that tools/gen/gen_handlers.py generates from
   Pyro5/server.py, svr_threads.py, svr_multiplex.py and errors.py (Gen/GenHandlers.v)
   and that Model/Containment.v interprets.  Definitions only. *)
From Coq Require Import List String Bool.
Import ListNotations.

(* the functions whose exception-handling skeleton is extracted *)
Inductive fn :=
| FHandshake        (* server.Daemon._handshake *)
| FHandleRequest    (* server.Daemon.handleRequest *)
| FSendExc          (* server.Daemon._sendExceptionResponse *)
| FJobCall          (* svr_threads.ClientConnectionJob.__call__ *)
| FJobHandleConn    (* svr_threads.ClientConnectionJob.handleConnection *)
| FJobDeny          (* svr_threads.ClientConnectionJob.denyConnection *)
| FWorkerRun        (* svr_threads.Worker.run *)
| FThrEvents        (* svr_threads.SocketServer_Threadpool.events *)
| FThrLoop          (* svr_threads.SocketServer_Threadpool.loop *)
| FMuxEvents        (* svr_multiplex.SocketServer_Multiplex.events *)
| FMuxHandleConn    (* svr_multiplex.SocketServer_Multiplex._handleConnection *)
| FMuxHandleReq     (* svr_multiplex.SocketServer_Multiplex.handleRequest *)
| FMuxLoop.         (* svr_multiplex.SocketServer_Multiplex.loop *)

Definition cls := string.          (* canonical class name: "errors.ProtocolError", "OSError", "Exception", ... *)
Definition exc := list cls.        (* an exception is represented by the mro of its class (without object) *)

(* what the body of an except clause does with the exception it caught *)
Inductive action :=
| ASwallow          (* falls through to the statement after the try *)
| ABreak | AContinue
| ARetFalse | ARetTrue | ARetNone
| AReraise          (* bare raise / raise <bound name> (possibly after other statements) *)
| ARaiseNew         (* may raise some other exception (treated as propagating) *)
| AReply.           (* Daemon.handleRequest's catch-all: answers with an error reply, re-raises conditionally *)

(* a handler row may be guarded: [GAtRecv] = only when the exception surfaced at the function's recv_stub call
   (source: `if msg is None and isinstance(x, C): ...; return False` at the head of an except clause, msg being
   assigned by that call only) *)
Inductive guard := GAlways | GAtRecv.
Definition guard_ok (g : guard) (atrecv : bool) : bool := match g with GAlways => true | GAtRecv => atrecv end.

(* a try statement or a `with contextlib.suppress(...)` block; [s_ord] counts the sites of one function in
   source order; [s_outer] is the innermost site of the same function whose protected body contains this one *)
Record site := { s_fn : fn; s_ord : nat; s_handlers : list (list cls * guard * action); s_finally : bool; s_outer : option nat }.

(* the anchored calls *)
Inductive ckind :=
| KRecvStub | KSend | KLoads | KLoadsCall | KDumps | KMethod | KValidate
| KHandshake | KHandleRequest | KClientDisconnect | KDenyConnection | KJob | KEvents | KHandleConnection | KSendExc
| KFormatExc        (* a statement inside an except clause that formats the caught (peer-influenced) exception eagerly:
                      "..." % x, str(x), f"{x}" ... — a raise point for exceptions whose __str__ raises *)
| KHousekeeping.   (* Daemon._housekeeping(): item-stream cleanup + the user's housekeeping hook *)

(* the [a_idx]-th call of kind [a_kind] in function [a_fn] (source order); [a_site] is the innermost site whose
   protected body contains the call (a call inside an except/finally/else block is not protected by that try) *)
(* [a_handler]: the site in one of whose except clauses the call stands (innermost), if any *)
Record anchor := { a_fn : fn; a_kind : ckind; a_idx : nat; a_site : option nat; a_handler : option nat }.

(* the class tests in Daemon.handleRequest's catch-all:
     if not isinstance(xv, rr_never): if not oneway: if isinstance(xv, rr_always) or not isinstance(xv, rr_unless): reply
     if isCallback or isinstance(xv, rr_reraise): raise *)
Record reply_rule := { rr_never : list cls; rr_always : list cls; rr_unless : list cls; rr_reraise : list cls }.

Record tables := { t_sites : list site; t_anchors : list anchor; t_hier : list (cls * cls); t_reply : reply_rule }.

Definition fn_eqb (a b : fn) : bool :=
  match a, b with
  | FHandshake, FHandshake | FHandleRequest, FHandleRequest | FSendExc, FSendExc | FJobCall, FJobCall
  | FJobHandleConn, FJobHandleConn | FJobDeny, FJobDeny | FWorkerRun, FWorkerRun | FThrEvents, FThrEvents
  | FThrLoop, FThrLoop | FMuxEvents, FMuxEvents | FMuxHandleConn, FMuxHandleConn | FMuxHandleReq, FMuxHandleReq
  | FMuxLoop, FMuxLoop => true
  | _, _ => false
  end.

Definition ckind_eqb (a b : ckind) : bool :=
  match a, b with
  | KRecvStub, KRecvStub | KSend, KSend | KLoads, KLoads | KLoadsCall, KLoadsCall | KDumps, KDumps | KMethod, KMethod
  | KValidate, KValidate | KHandshake, KHandshake | KHandleRequest, KHandleRequest
  | KClientDisconnect, KClientDisconnect | KDenyConnection, KDenyConnection | KJob, KJob | KEvents, KEvents
  | KHandleConnection, KHandleConnection | KSendExc, KSendExc | KHousekeeping, KHousekeeping | KFormatExc, KFormatExc => true
  | _, _ => false
  end.
