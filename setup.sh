#!/bin/bash
# Build the framework from files on disk only (offline): regenerate Gen tables from /repo,
# then a full .vo build of the Coq development.
set -e
cd "$(dirname "$0")"
export PYTHONHASHSEED=0 PYTHONDONTWRITEBYTECODE=1
PYRO5_TREE="${PYRO5_TREE:-/repo}" /venv/bin/python tools/gen/gen.py || echo "gen: some tables failed (reported by the checks)"
/venv/bin/python tools/mkproject.py > /dev/null
cd coq
coq_makefile -f _CoqProject -o Makefile > /dev/null
timeout 3000 make -j16 2>&1 | tail -40
